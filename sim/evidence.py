"""Evidence files (/verif/evidence/<id>.json), written by the check itself on every run."""
import json
import os

from sim import registry

VERIF = os.path.dirname(os.path.dirname(os.path.abspath(__file__)))

LEVEL = {"C07": "fault_enumeration"}

RULES = {
    "A": "one evaluation = one seeded simulated run of the archive/DNA-channel simulation (designer, writer, pool, "
         "readers under a seeded scheduler; 15-60 explicit operations). A run is non-trivial when at least one fault "
         "landed inside a delivered read that a library call then processed (C04: at least one write was judged by the "
         "oracle); distinct = distinct SHA-256 digests of the runs' canonical event logs.",
    "B": "one evaluation = one seeded simulated run of the shared-object call-history simulation (clients calling the "
         "public API on one object store under a seeded scheduler, RNG/clock adversaries interleaved; 10-80 explicit "
         "operations). A run is non-trivial when at least one oracle comparison was non-vacuous (fresh-process "
         "equality, reference-model step or certified-capacity comparison); distinct = distinct run digests.",
}

COMPONENTS = {
    "real": ["every module under /repo/dsw imported from the working tree (dsw.spiderweb, dsw.graphized, dsw.operation, "
             "dsw.biofilter)", "numpy", "networkx"],
    "stub": ["DNA channel (synthesis, storage, duplication, sequencing): simulated pool", "wall clock: SimDateTime on "
             "dsw.operation.datetime", "stdout: in-memory recorder", "OS entropy behind numpy.random.seed(None): "
             "seeded stream", "fresh process oracle (Engine B): forked child of a pristine zygote"],
}


def write(prop, tier, seed, total, digests, violations, samples, sim_time, none_seeds, runs, trees, wall, search_wall,
          workers, known_hits, reported, first_seed):
    eng = registry.engine_name(prop)
    nontrivial = len(set(d for d, nt in digests.values() if nt))
    zero_probes = []
    try:
        from sim import probes_expected
        zero_probes = [p for p in probes_expected.EXPECTED.get(prop, []) if total["probes"].get(p, 0) == 0]
    except ImportError:
        pass
    ops_total = sum(total["ops"].values())
    ev = {
        "property_id": prop, "tier": tier, "seed": seed, "level": LEVEL.get(prop, "exploration"),
        "coverage": {
            "evaluations": runs,
            "distinct_nontrivial": nontrivial,
            "rule": RULES[eng],
            "samples": samples[:3] if samples else [{"note": "no non-violating non-trivial run to sample"}],
            "exhaustive": False,
            "seed_range": [first_seed, first_seed + runs - 1],
            "operations": ops_total,
            "operations_by_kind": total["ops"],
            "library_calls": total["lib_calls"],
            "runs_per_hour": int(runs / max(search_wall, 1e-6) * 3600),
            "operations_per_hour": int(ops_total / max(search_wall, 1e-6) * 3600),
            "workers": workers,
            "simulated_time": {"back_edges": sim_time["back_edges"], "row_reads": sim_time["row_reads"],
                               "simulated_clock_span_s": sim_time["clock_span_s"]},
            "faults_fired": total["faults"],
            "probes": total["probes"],
            "probes_at_zero": zero_probes,
            "distinct_states": len(total["states"]),
            "distinct_states_sample": sorted(total["states"])[:25],
            "oracle_comparisons": {"nonvacuous": total["nonvacuous"], "vacuous_or_outside_precondition": total["vacuous"]},
            "max_budget_utilisation": total["max_util"],
            "rng_seed_none_intercepted": none_seeds,
            "extra": total.get("extra", {}),
            "components": COMPONENTS,
            "repo_tree_digest": sorted(trees),
            "known_findings_matched": {k: v[1] for k, v in known_hits.items()},
            "violating_runs": len(violations),
            "replay_files": [p for p, _, _ in reported],
        },
        "assumptions": [
            "seeded search: a clean batch is evidence for the seeds, configurations and fault sequences explored, not proof",
            "oracles trust CPython, numpy and the simulator-side reference models (walk, VT, edit, bit-carry, arc-set models)",
            "operations are atomic: no pre-emption inside a library call (the library has no yield point and keeps no state between calls)",
        ],
        "wall_s": round(wall, 2),
        "violations": len(reported),
    }
    try:
        with open(os.path.join(VERIF, "evidence", "selftest-determinism.json")) as f:
            ev["coverage"]["determinism_selftest"] = json.load(f).get("summary", {}).get(prop)
    except (IOError, ValueError):
        pass
    if prop == "C07":
        ev["coverage"]["exhaustive"] = False
        ev["coverage"]["fault_enumeration_note"] = (
            "for every strand scanned by a VTSCAN operation the complete single-edit neighbourhood (3n substitutions, "
            "4(n+1) insertions, n deletions) is enumerated; the strands themselves are sampled by the simulation")
    path = os.path.join(VERIF, "evidence", "%s.json" % prop)
    os.makedirs(os.path.dirname(path), exist_ok=True)
    with open(path, "w") as f:
        json.dump(ev, f, indent=1, sort_keys=True, default=str)
    return path
