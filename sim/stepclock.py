"""Simulated time for a library without timers: the step clock.

Two deterministic counters, reset per library call:

* back-edges  - a sys.monitoring tool with JUMP events on every code object of the dsw modules;
                the callback counts backward jumps (= loop iterations) and raises StepBudgetExceeded
                inside the monitored frame when the per-call budget is exceeded;
* row reads   - graphs are handed to the library as CountingAccessor (an ndarray subclass) whose
                __getitem__ counts look-ups on the 2-D object and raises when the row budget is gone.
"""
import sys
import types

import numpy


class StepBudgetExceeded(BaseException):
    """Not an Exception subclass on purpose: library `except Exception` must not swallow it."""

    def __init__(self, which, used, budget):
        BaseException.__init__(self, "%s budget exceeded: %d > %d" % (which, used, budget))
        self.which, self.used, self.budget = which, used, budget


class _Clock(object):
    __slots__ = ("jumps", "jump_budget", "rows", "row_budget", "armed", "total_jumps", "total_rows")

    def __init__(self):
        self.jumps = 0
        self.jump_budget = 1 << 62
        self.rows = 0
        self.row_budget = 1 << 62
        self.armed = False
        self.total_jumps = 0
        self.total_rows = 0


CLOCK = _Clock()
_TOOL = None
_MONITORED = []


def _on_jump(code, src, dst):
    if dst < src:
        c = CLOCK
        c.jumps += 1
        if c.armed and c.jumps > c.jump_budget:
            c.armed = False
            raise StepBudgetExceeded("back-edge", c.jumps, c.jump_budget)


def _code_objects(code):
    yield code
    for const in code.co_consts:
        if isinstance(const, types.CodeType):
            for inner in _code_objects(const):
                yield inner


def _module_codes(module):
    seen = set()
    for name in sorted(vars(module)):
        obj = vars(module)[name]
        funcs = []
        if isinstance(obj, types.FunctionType) and obj.__module__ == module.__name__:
            funcs.append(obj)
        elif isinstance(obj, type) and obj.__module__ == module.__name__:
            for attr_name in sorted(vars(obj)):
                attr = vars(obj)[attr_name]
                if isinstance(attr, (staticmethod, classmethod)):
                    attr = attr.__func__
                if isinstance(attr, types.FunctionType):
                    funcs.append(attr)
        for func in funcs:
            for code in _code_objects(func.__code__):
                if id(code) not in seen:
                    seen.add(id(code))
                    yield code


def install(modules):
    """Enable back-edge counting on every function/method defined in the given modules."""
    global _TOOL
    mon = sys.monitoring
    if _TOOL is None:
        _TOOL = mon.PROFILER_ID
        mon.use_tool_id(_TOOL, "dsw-sim-stepclock")
        mon.register_callback(_TOOL, mon.events.JUMP, _on_jump)
    count = 0
    for module in modules:
        for code in _module_codes(module):
            mon.set_local_events(_TOOL, code, mon.events.JUMP)
            _MONITORED.append(code)
            count += 1
    return count


def uninstall():
    global _TOOL
    if _TOOL is not None:
        mon = sys.monitoring
        for code in _MONITORED:
            mon.set_local_events(_TOOL, code, 0)
        del _MONITORED[:]
        mon.register_callback(_TOOL, mon.events.JUMP, None)
        mon.free_tool_id(_TOOL)
        _TOOL = None


class CountingAccessor(numpy.ndarray):
    """ndarray subclass counting look-ups on the 2-D graph object (output-transparent)."""

    def __getitem__(self, item):
        if self.ndim == 2:
            c = CLOCK
            c.rows += 1
            if c.armed and c.rows > c.row_budget:
                c.armed = False
                raise StepBudgetExceeded("row-read", c.rows, c.row_budget)
        return numpy.ndarray.__getitem__(self, item)


def counting(array2d):
    return numpy.array(array2d, dtype=int).view(CountingAccessor)


class Outcome(object):
    __slots__ = ("kind", "value", "exc_type", "exc_msg", "jumps", "rows", "which", "exc")

    def __init__(self):
        self.kind = None      # "returned" | "raised" | "budget"
        self.value = None
        self.exc_type = None
        self.exc_msg = None
        self.jumps = 0
        self.rows = 0
        self.which = None     # which budget tripped
        self.exc = None

    def brief(self):
        if self.kind == "returned":
            return {"kind": "returned", "jumps": self.jumps, "rows": self.rows}
        if self.kind == "raised":
            return {"kind": "raised", "type": self.exc_type, "msg": self.exc_msg[:160],
                    "jumps": self.jumps, "rows": self.rows}
        return {"kind": "budget", "which": self.which, "jumps": self.jumps, "rows": self.rows}


def call(fn, kwargs, jump_budget=None, row_budget=None):
    """Run one library call on the step clock."""
    c = CLOCK
    c.jumps, c.rows = 0, 0
    c.jump_budget = jump_budget if jump_budget is not None else (1 << 62)
    c.row_budget = row_budget if row_budget is not None else (1 << 62)
    out = Outcome()
    c.armed = True
    try:
        out.value = fn(**kwargs)
        out.kind = "returned"
    except StepBudgetExceeded as e:
        out.kind, out.which = "budget", e.which
    except Exception as e:  # library exception: an outcome, classified by the oracles
        out.kind, out.exc_type, out.exc_msg, out.exc = "raised", type(e).__name__, str(e), e
    finally:
        c.armed = False
    out.jumps, out.rows = c.jumps, c.rows
    c.total_jumps += c.jumps
    c.total_rows += c.rows
    return out
