"""Delta debugging on an explicit operation list while the same property and clause fails (DESIGN 3.6)."""


def failure_class(violation_dict):
    """Violations are "the same" while clause, exception type and tripped budget agree."""
    d = violation_dict.get("detail", {})
    return (violation_dict["clause"], d.get("exc"), d.get("budget"), d.get("fn"))


def _replay_isolated(eng, candidate):
    """Each attempt runs in a forked child of the pristine minimiser process (no state leaks between attempts)."""
    from sim import isolate

    def child():
        violation, index, digest = eng.replay(candidate["property"], candidate)
        return (violation.as_dict() if violation is not None else None, index, digest)

    return isolate.run(child, (), timeout=300.0, before=getattr(eng, "prepare", None), after=getattr(eng, "finish", None))


def _fails_same(eng, trace, ops, clause):
    candidate = dict(trace, ops=ops)
    try:
        violation, index, _ = _replay_isolated(eng, candidate)
    except Exception:
        return None
    if violation is None or failure_class(violation) != failure_class(trace["violation"]):
        return None
    return ops[:index + 1]


def minimise(eng, trace, max_exec=400, wall_s=420.0):
    import time
    t_end = time.time() + wall_s
    prop, clause = trace["property"], trace["violation"]["clause"]
    ops = list(trace["ops"])
    executions = 0
    # sanity: the trace must fail as recorded
    first = _fails_same(eng, trace, ops, clause)
    executions += 1
    if first is None:
        out = dict(trace)
        out["minimise_note"] = "unminimised trace did not reproduce inside the minimiser"
        return out, executions
    ops = first
    changed = True
    while changed and executions < max_exec and time.time() < t_end:
        changed = False
        # 1. drop operations (never the failing last one), from the end backwards, in halves first
        n = len(ops) - 1
        chunk = max(1, n // 2)
        while chunk >= 1 and executions < max_exec and time.time() < t_end:
            i = n - chunk
            progressed = False
            while i >= 0 and executions < max_exec and time.time() < t_end:
                candidate = ops[:i] + ops[i + chunk:]
                if len(candidate) >= 1 and candidate[-1] is ops[-1]:
                    executions += 1
                    res = _fails_same(eng, trace, candidate, clause)
                    if res is not None:
                        ops, changed, progressed = res, True, True
                        n = len(ops) - 1
                i -= chunk
            if chunk == 1:
                break
            chunk = max(1, chunk // 2)
        # 2. per-operation simplifiers
        progress = True
        while progress and executions < max_exec and time.time() < t_end:
            progress = False
            for candidate in eng.simplifications(ops):
                if executions >= max_exec or time.time() >= t_end:
                    break
                executions += 1
                res = _fails_same(eng, trace, candidate, clause)
                if res is not None and res != ops:
                    ops, changed, progress = res, True, True
                    break
    out = dict(trace)
    out["ops"] = ops
    # refresh the recorded violation from the minimised trace
    violation, index, digest = _replay_isolated(eng, out)
    executions += 1
    if violation is not None and failure_class(violation) == failure_class(trace["violation"]):
        out["violation"] = violation
        out["digest"] = digest
    else:
        out = dict(trace)
        out["minimise_note"] = "minimised trace lost the violation; unminimised trace kept"
    return out, executions
