"""Which engine decides which property."""
ENGINE_A = ("C04", "C06", "C07", "C08", "C09", "C10")
ENGINE_B = ("C17", "C18", "C19", "C20")


def engine(prop):
    if prop in ENGINE_A:
        from sim import workload_a
        return workload_a
    if prop in ENGINE_B:
        from sim import workload_b
        return workload_b
    raise KeyError(prop)


def engine_name(prop):
    return "A" if prop in ENGINE_A else "B"
