"""Fresh-process oracle for Engine B.

A zygote is forked from the worker *before the worker has ever called into dsw*; it imports dsw, installs the same
seams and then only waits. For every reference evaluation it forks one child, which evaluates exactly one call on
unpickled copies of the arguments with a steady clock, writes (outcome, normalised result) back and _exits. So every
reference result comes from a process in which no other library call has ever run.
"""
import os
import pickle
import struct
import sys


def _write_all(fd, data):
    view = memoryview(data)
    while view:
        n = os.write(fd, view)
        view = view[n:]


def _read_exact(fd, n):
    chunks = []
    while n > 0:
        b = os.read(fd, n)
        if not b:
            raise EOFError("zygote pipe closed")
        chunks.append(b)
        n -= len(b)
    return b"".join(chunks)


def send(fd, obj):
    data = pickle.dumps(obj, protocol=4)
    _write_all(fd, struct.pack("<Q", len(data)) + data)


def recv(fd):
    (n,) = struct.unpack("<Q", _read_exact(fd, 8))
    return pickle.loads(_read_exact(fd, n))


class Zygote(object):
    def __init__(self):
        self.pid = None
        self.req_w = self.resp_r = None
        self.calls = 0

    def start(self, evaluate):
        """evaluate(request) -> response; runs in a grandchild, once per request."""
        req_r, req_w = os.pipe()
        resp_r, resp_w = os.pipe()
        pid = os.fork()
        if pid == 0:
            # ---- zygote ----
            try:
                os.close(req_w)
                os.close(resp_r)
                while True:
                    try:
                        request = recv(req_r)
                    except EOFError:
                        os._exit(0)
                    child = os.fork()
                    if child == 0:
                        code = 0
                        try:
                            response = evaluate(request)
                            send(resp_w, ("ok", response))
                        except BaseException as e:  # the evaluation harness itself failed
                            try:
                                send(resp_w, ("harness-error", "%s: %s" % (type(e).__name__, e)))
                            except BaseException:
                                code = 3
                        os._exit(code)
                    _, status = os.waitpid(child, 0)
                    if status != 0:
                        send(resp_w, ("harness-error", "reference child exited with status %d" % status))
            finally:
                os._exit(0)
        os.close(req_r)
        os.close(resp_w)
        self.pid, self.req_w, self.resp_r = pid, req_w, resp_r

    def evaluate(self, request):
        send(self.req_w, request)
        self.calls += 1
        kind, payload = recv(self.resp_r)
        if kind != "ok":
            from sim.kernel import HarnessError
            raise HarnessError("fresh-process oracle: %s" % payload)
        return payload

    def stop(self):
        if self.pid is not None:
            try:
                os.close(self.req_w)
                os.close(self.resp_r)
            except OSError:
                pass
            try:
                os.waitpid(self.pid, 0)
            except OSError:
                pass
            self.pid = None


ZYGOTE = Zygote()
