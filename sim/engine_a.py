"""Engine A - the archive / DNA-channel simulation (DESIGN section 4).

designer --graph,table--> writer --strand,check,metadata--> POOL --noisy reads--> reader

Every operation is an explicit dict (the replay artefact); `execute` runs one operation against the world on
the step clock and evaluates the oracles of the property being checked.
"""
import numbers

import numpy

from sim import models as M
from sim import graphs as G
from sim import faults as F
from sim import stepclock as SC
from sim import seams
from sim.kernel import Violation, HarnessError, sha, weighted

PROPS = ("C04", "C06", "C07", "C08", "C09", "C10")


# ----------------------------------------------------------------------------------------------------------------
# world
# ----------------------------------------------------------------------------------------------------------------
class Design(object):
    def __init__(self, ident, k, rows, generated, threshold=None, source="rows", base=None):
        self.id, self.k, self.rows, self.generated = ident, k, rows, generated
        self.threshold, self.source, self.base = threshold, source, base
        self.acc = SC.counting(rows)
        self.plain = numpy.array(rows, dtype=int)
        self.live = M.live_vertices(rows)
        self.hist = M.degree_multiset(rows)
        self.digest = sha(M.rows_key(rows))[:16]

    def suspicious_starts(self):
        """Retained vertices from which trouble is one step away, if the graph has any: vertices with an arc into a
        vertex without out-arcs (a
        dangling arc). Used to place writes where a wrongly trimmed graph would show."""
        live = set(self.live)
        out = []
        for v in self.live:
            succ = [w for w in self.rows[v] if w >= 0]
            if any(w not in live for w in succ):
                out.append(v)
        return out

    def accessor(self, proxy=True):
        return self.acc if proxy else self.plain


class World(object):
    def __init__(self, prop, proxy=True):
        self.prop, self.proxy = prop, proxy
        self.designs, self.tables = {}, {}
        self.molecules, self.reads = [], []
        self.dsw = seams.install()


class Stats(object):
    def __init__(self):
        self.ops, self.faults, self.probes = {}, {}, {}
        self.states = set()
        self.lib_calls = 0
        self.vacuous = 0
        self.nonvacuous = 0
        self.max_util = {}
        self.fault_in_op = 0

    def inc(self, table, key, n=1):
        d = getattr(self, table)
        d[key] = d.get(key, 0) + n

    def util(self, name, used, bound):
        if bound > 0:
            u = float(used) / bound
            if u > self.max_util.get(name, 0.0):
                self.max_util[name] = u


class Ctx(object):
    def __init__(self, prop, stats, budget_scale=1):
        self.prop, self.stats, self.violation = prop, stats, None
        self.budget_scale = budget_scale

    def outside(self, name):
        """The explicit op is outside the property's precondition on the current tree (can only happen when a trace is
        replayed on a different tree or during minimisation): nothing is asserted."""
        self.stats.vacuous += 1
        self.stats.inc("probes", "outside-precondition:" + name)

    def fail(self, clause, what, **detail):
        if self.violation is None:
            self.violation = Violation(self.prop, clause, what, detail)


# ----------------------------------------------------------------------------------------------------------------
# budgets (simulated time bounds, DESIGN section 6)
# ----------------------------------------------------------------------------------------------------------------
def design_budget(k):
    return int(30 * (4 ** k) ** 1.5 + 200000)


def encode_bounds(L, nlive):
    row_bound = 4 * (L * nlive + 1)
    digits = int(0.31 * L) + 2
    jumps = 20 * (4 * (L + 1) * digits + (row_bound // 2 + 1) * (3 * digits + 12)) + 5000
    return row_bound, jumps


def decode_budget(n, bit_length):
    return 20000 + 60 * (n + 1) * (n + 2) + 40 * (bit_length + 1) * (n + 2)


def repair_bounds(n, k, heap):
    row_bound = 100 * (n + 1) * (k + 1)
    # analysed cost: <= ~64 k^2 back-edges per detection (k recalls x 8 candidate repairs x 2k-step walks x 4-way
    # membership tests), <= n/(k+1) detections, plus the candidate product (<= heap x number of segments)
    jumps = int(2000 * (n + 1) * (k + 1) + 10 * min(heap, 1e6) * (n + 1))
    return row_bound, jumps


JUMP_UTIL = {}


def budgeted(fn, kwargs, jumps, rows=None):
    """Run on the step clock; a first back-edge trip with row reads in bound is re-executed once with 5x budget."""
    out = SC.call(fn, kwargs, jump_budget=jumps, row_budget=(rows + 1) if rows is not None else None)
    if out.kind != "budget" and jumps:
        name = getattr(fn, "__name__", "?") + ".back-edges"
        u = float(out.jumps) / jumps
        if u > JUMP_UTIL.get(name, 0.0):
            JUMP_UTIL[name] = u
    if out.kind == "budget" and out.which == "back-edge" and rows is not None:
        out = SC.call(fn, kwargs, jump_budget=5 * jumps, row_budget=(rows + 1) if rows is not None else None)
    return out


# ----------------------------------------------------------------------------------------------------------------
# helpers
# ----------------------------------------------------------------------------------------------------------------
def table_from_digits(digits, k, dtype=None):
    return numpy.array([[int(c) for c in digits[4 * v: 4 * v + 4]] for v in range(4 ** k)],
                       dtype=getattr(numpy, dtype) if dtype else int)


def random_table_digits(rng, k):
    out = []
    for _ in range(4 ** k):
        p = [0, 1, 2, 3]
        rng.shuffle(p)
        out.append("".join(map(str, p)))
    return "".join(out)


def bits_array(bits, dtype=None):
    return numpy.array([int(c) for c in bits], dtype=getattr(numpy, dtype) if dtype else int)


TWIN_WIDTH = {"uint8": 8, "int8": 8, "int16": 4, "int32": 2}


def twin_bits(bits, dtype):
    """The message whose array of `dtype` has exactly the bytes of the int64 array of `bits` (little endian): each bit
    followed by width-1 zero bits. A legal message in its own right; equal buffers, different messages."""
    return "".join(c + "0" * (TWIN_WIDTH[dtype] - 1) for c in bits)


def norm_result(value):
    """JSON-able normal form of a library result (for digests)."""
    if isinstance(value, numpy.ndarray):
        return {"nd": [str(value.dtype), list(value.shape), value.tolist()]}
    if isinstance(value, numpy.generic):
        return {"np": [type(value).__name__, value.item()]}
    if isinstance(value, (list, tuple)):
        return [norm_result(v) for v in value]
    if isinstance(value, dict):
        return {"dict": [[norm_result(k), norm_result(v)] for k, v in value.items()]}
    if isinstance(value, (str, int, float, bool)) or value is None:
        return value
    return repr(value)


def _start(op):
    """Start vertices reach the library as Python ints or, as in experiments/ (numpy.random.choice(vertices)), as
    numpy integers."""
    return numpy.int64(op["start"]) if op.get("np_start") else op["start"]


def build_filter(dsw, cfg):
    return dsw.LocalBioFilter(observed_length=cfg["k"], max_homopolymer_runs=cfg["runs"], gc_range=cfg["gc"],
                              undesired_motifs=cfg["motifs"])


# ----------------------------------------------------------------------------------------------------------------
# operations
# ----------------------------------------------------------------------------------------------------------------
def execute(op, world, ctx):
    """Execute one explicit operation. Returns a log record {"out":..., "res":...}."""
    name = op["op"]
    ctx.stats.inc("ops", name)
    handler = HANDLERS.get(name)
    if handler is None:
        raise HarnessError("unknown op %r" % name)
    return handler(op, world, ctx)


def op_design(op, world, ctx):
    dsw, kind, k = world.dsw, op["kind"], op["k"]
    rec = {"out": {"kind": "sim"}, "res": None}
    if kind == "rows":
        rows = G.arcs_to_rows(op["arcs"], k)
        design = Design(op["id"], k, rows, generated=False, source="rows")
    elif kind == "doc":
        design = Design(op["id"], 2, [list(r) for r in G.DOC_ROWS], generated=False, source="doc")
    elif kind in ("mask", "filter"):
        if kind == "mask":
            mask = numpy.array([c == "1" for c in op["mask"]], dtype=bool)
            if op.get("dtype") == "int":
                mask = mask.astype(int)
        else:
            ctx.stats.lib_calls += 1
            out0 = budgeted(dsw.find_vertices, dict(observed_length=k, bio_filter=build_filter(dsw, op["filter"])),
                            design_budget(k) * 4)
            if out0.kind != "returned":
                ctx.stats.inc("probes", "design:filter-" + (out0.exc_type or out0.kind))
                rec["out"] = out0.brief()
                return rec
            mask = out0.value
        snapshot = mask.copy()
        ctx.stats.lib_calls += 1
        out = budgeted(dsw.connect_coding_graph, dict(observed_length=k, vertices=mask, threshold=op["threshold"]),
                       design_budget(k))
        rec["out"] = out.brief()
        if out.kind != "returned":
            # a generation that raises returns no graph: outside the claimed properties (C03 is not claimed)
            ctx.stats.inc("probes", "design:" + (out.exc_type or out.kind))
            return rec
        try:
            vertices, accessor = out.value
            rows = numpy.asarray(accessor).tolist()
            ok = len(rows) == 4 ** k and all(len(r) == 4 for r in rows) and M.check_rows_shape(rows, k)
        except Exception:
            ok = False
        if not ok:
            ctx.stats.inc("probes", "design:malformed")
            return rec
        if not numpy.array_equal(snapshot, mask):
            ctx.stats.inc("probes", "design:mask-mutated")
        design = Design(op["id"], k, rows, generated=True, threshold=op["threshold"], source=kind)
        design.raw = accessor        # the very object the library handed back (its owner may edit it in place)
        if k <= 5:     # reach probe only (C03 is not claimed); the pure-Python model is too slow for larger orders
            model = M.coding_graph_model([bool(x) for x in snapshot.tolist()], k, op["threshold"])
            ctx.stats.inc("probes", "design:equals-fixed-point-model" if model == rows else "design:differs-from-model")
    elif kind == "trim-inplace" and ctx.prop != "C04":
        # readers keep using a graph object while its owner screens arcs in place: the very array the library has been
        # given before is edited by remove_nasty_arc; the design stays in use with its new arc set
        target = world.designs.get(op["target"])
        if target is None:
            rec["out"] = {"kind": "skipped"}
            return rec
        shared = target.accessor(world.proxy)
        latter_map = dsw.accessor_to_latter_map(numpy.array(target.rows, dtype=int))
        done = 0
        for _ in range(op["removals"]):
            ctx.stats.lib_calls += 1
            out = budgeted(dsw.remove_nasty_arc, dict(accessor=shared, latter_map=latter_map, has_insertion=op["ins"],
                                                       has_deletion=op["del"]), 5000000)
            if out.kind != "returned":
                break
            done += 1
        rows = numpy.asarray(shared).tolist()
        if not M.check_rows_shape(rows, target.k):
            ctx.stats.inc("probes", "design:trim-malformed")
            del world.designs[op["target"]]
            return rec
        target.rows, target.generated, target.source = rows, False, "trim-inplace"
        target.acc[...] = numpy.array(rows, dtype=int)
        target.plain[...] = numpy.array(rows, dtype=int)
        target.live, target.hist = M.live_vertices(rows), M.degree_multiset(rows)
        target.digest = sha(M.rows_key(rows))[:16]
        ctx.stats.inc("probes", "design:trim-inplace-kept")
        rec["out"], rec["res"] = {"kind": "returned", "removed": done}, target.digest
        return rec
    elif kind == "trim-inplace":
        # the owner of a generated graph screens its arcs in place (as experiments/code_repair.py does); the edited graph
        # is no longer a generation result, so the design is retired
        target = world.designs.get(op["target"])
        raw = getattr(target, "raw", None) if target is not None else None
        if raw is None:
            rec["out"] = {"kind": "skipped"}
            return rec
        latter_map = dsw.accessor_to_latter_map(raw)
        done = 0
        for _ in range(op["removals"]):
            ctx.stats.lib_calls += 1
            out = budgeted(dsw.remove_nasty_arc, dict(accessor=raw, latter_map=latter_map, has_insertion=op["ins"],
                                                       has_deletion=op["del"]), 5000000)
            if out.kind != "returned":
                break
            done += 1
        del world.designs[op["target"]]
        ctx.stats.inc("probes", "design:trim-inplace")
        rec["out"] = {"kind": "returned", "removed": done}
        return rec
    elif kind == "trim":
        base = world.designs.get(op["base"])
        if base is None:
            rec["out"] = {"kind": "skipped"}
            return rec
        accessor = numpy.array(base.rows, dtype=int)
        latter_map = dsw.accessor_to_latter_map(accessor)
        done = 0
        for _ in range(op["removals"]):
            ctx.stats.lib_calls += 1
            out = budgeted(dsw.remove_nasty_arc, dict(accessor=accessor, latter_map=latter_map,
                                                       has_insertion=op["ins"], has_deletion=op["del"]),
                           5000000)
            if out.kind != "returned":
                break
            accessor, latter_map = out.value[0], out.value[1]
            done += 1
        rows = numpy.asarray(accessor).tolist()
        if not M.check_rows_shape(rows, base.k):
            ctx.stats.inc("probes", "design:trim-malformed")
            return rec
        design = Design(op["id"], base.k, rows, generated=False, source="trim", base=base.id)
        rec["out"] = {"kind": "returned", "removed": done}
    else:
        raise HarnessError("design kind %r" % kind)
    world.designs[design.id] = design
    rec["res"] = design.digest
    ctx.stats.inc("probes", "design:" + kind)
    return rec


def op_write(op, world, ctx):
    """WRITE: encode a message (writer-side invariants = C04)."""
    dsw = world.dsw
    design = world.designs.get(op["design"])
    if design is None:
        return {"out": {"kind": "skipped"}, "res": None}
    twin = op.get("twin")
    if twin:
        # the writer also stores the byte-reinterpretation of this message under a narrower integer dtype (same raw
        # buffer, another message), before or after it, in the same process: all C04 invariants apply to both writes
        other = dict(op, bits=twin_bits(op["bits"], twin["dtype"]), bits_dtype=twin["dtype"], twin=None)
        ctx.stats.inc("probes", "c04:twin-write-" + twin["order"])
        if twin["order"] == "before":
            op_write(other, world, ctx)
            if ctx.violation is not None:
                return {"out": {"kind": "twin-failed"}, "res": None}
    bits, L, fast = op["bits"], len(op["bits"]), op["fast"]
    table = table_from_digits(op["table"], design.k, op.get("table_dtype")) if op.get("table") else None
    kwargs = dict(binary_message=bits_array(bits, op.get("bits_dtype")), accessor=design.accessor(world.proxy), start_index=_start(op),
                  is_faster=fast, vt_length=op.get("vt", 0), shuffles=table)
    nlive = len(design.live)
    row_bound, jumps = encode_bounds(L, nlive)
    ctx.stats.lib_calls += 1
    if not world.proxy:
        jumps = min(jumps, 400000)     # transparency self-test only: no row budget, so keep the hang backstop short
    out = budgeted(dsw.encode, kwargs, jumps * ctx.budget_scale, row_bound if world.proxy else None)
    rec = {"out": out.brief(), "res": None}
    strand = check = None
    if out.kind == "returned":
        value = out.value
        if op.get("vt", 0) > 0 and isinstance(value, tuple) and len(value) == 2:
            strand, check = value
        else:
            strand = value
        rec["res"] = sha(norm_result(value))[:16]
    rec["strand"], rec["check"] = strand, check
    if ctx.prop == "C04":
        oracle_c04(op, design, out, strand, ctx, row_bound)
    if twin and twin["order"] == "after" and ctx.violation is None:
        op_write(other, world, ctx)
    return rec


def oracle_c04(op, design, out, strand, ctx, row_bound):
    st, bits, L, fast = ctx.stats, op["bits"], len(op["bits"]), op["fast"]
    if not design.generated:
        return
    nlive = len(design.live)
    if op["start"] not in design.live:
        return ctx.outside("c04-start-not-retained")
    if fast and design.hist[3] > 0:
        return ctx.outside("c04-fast-with-3way")
    st.nonvacuous += 1
    det = {"k": design.k, "threshold": design.threshold, "fast": fast, "L": L, "start": op["start"]}
    if out.kind == "budget":
        return ctx.fail("terminates", "encode did not terminate within L*|V| steps (%s budget exhausted: rows=%d "
                        "bound=%d)" % (out.which, out.rows, row_bound), budget=out.which, **det)
    if out.kind == "raised":
        return ctx.fail("total", "encode raised %s: %s" % (out.exc_type, out.exc_msg), exc=out.exc_type,
                        msg=out.exc_msg[:80], odd=L % 2, **det)
    st.util("C04.rows", out.rows, row_bound)
    if not isinstance(strand, str):
        return ctx.fail("total", "encode returned %r instead of a strand" % type(strand).__name__, **det)
    n = len(strand)
    if n > L * nlive:
        return ctx.fail("terminates", "strand of %d nt exceeds L*|V| = %d" % (n, L * nlive), **det)
    wk = M.walk(design.rows, op["start"], strand)
    if not wk.is_walk:
        return ctx.fail("walk", "emitted strand is not a walk (first non-arc at %d)" % wk.first_bad, **det)
    value = int(bits, 2) if bits else 0
    if n == 0:
        if not fast and value != 0:
            return ctx.fail("tight", "empty strand for a non-zero message", **det)
        if fast and L != 0:
            return ctx.fail("tight", "empty strand for a non-empty fast-mode message", **det)
        st.inc("probes", "c04:empty-strand")
    else:
        degrees = wk.degrees
        if degrees[-1] < 2:
            return ctx.fail("tight", "last nucleotide leaves a vertex of out-degree %d" % degrees[-1], **det)
        if not fast:
            prod = 1
            for d in degrees[:-1]:
                prod *= d
            if prod > value:
                return ctx.fail("tight", "product of out-degrees before the last step %d > message value %d"
                                % (prod, value), **det)
            if design.threshold is not None and design.threshold >= 2 and n > max(L, 0):
                return ctx.fail("tight", "%d nt for an %d-bit message on a threshold-%d graph" %
                                (n, L, design.threshold), **det)
            if design.hist[4] == 4 ** design.k and n > (L + 1) // 2:
                return ctx.fail("tight", "%d nt > ceil(L/2) on the complete graph" % n, **det)
        else:
            carried = M.carried_bits(degrees)
            if carried not in (L, L + 1):
                return ctx.fail("tight", "fast mode carried %d bits for L=%d" % (carried, L), **det)
            if carried == L + 1:
                st.inc("probes", "c04:fast-odd-on-4way")
        for d in set(degrees):
            st.inc("probes", "c04:visit-%dway" % d)
        if op.get("table"):
            for d in set(degrees):
                if d in (2, 3):
                    st.inc("probes", "c04:shuffle-at-%dway" % d)
    msg_class = ("empty" if L == 0 else "zero" if value == 0 else "leading-zeros" if bits[0] == "0" else
                 "single-one" if bits.count("1") == 1 else "random")
    st.inc("probes", "c04:msg-" + msg_class)
    st.states.add("k%d/t%s/%s/deg%d/%s/%s/%s" % (design.k, design.threshold, "".join(
        "1" if h else "0" for h in design.hist[1:]), M.out_degree(design.rows, op["start"]), msg_class,
        "fast" if fast else "normal", "table" if op.get("table") else "plain"))


def _reader_kwargs(op, world, design):
    return design.accessor(world.proxy)


def op_read(op, world, ctx):
    """A read delivered by the pool to a reader: mode decode | repair."""
    design = world.designs.get(op["design"])
    if design is None:
        return {"out": {"kind": "skipped"}, "res": None}
    for f in op.get("faults", []):
        ctx.stats.inc("faults", f)
    if op.get("faults"):
        ctx.stats.fault_in_op += 1
    if op["mode"] == "decode":
        return read_decode(op, world, design, ctx)
    return read_repair(op, world, design, ctx)


def read_decode(op, world, design, ctx):
    dsw, read, fast = world.dsw, op["read"], op.get("fast", False)
    table = table_from_digits(op["table"], design.k, op.get("table_dtype")) if op.get("table") else None
    bit_length = op["bit_length"]
    if op.get("np_bitlen") and 0 <= bit_length <= numpy.iinfo(getattr(numpy, op["np_bitlen"])).max:
        bit_length = getattr(numpy, op["np_bitlen"])(bit_length)      # numpy integer scalars are integers
    kwargs = dict(dna_sequence=read, bit_length=bit_length, accessor=design.accessor(world.proxy),
                  start_index=_start(op), is_faster=fast, vt_check=op.get("check"), shuffles=table)
    ctx.stats.lib_calls += 1
    out = budgeted(dsw.decode, kwargs, decode_budget(len(read), op["bit_length"]) * ctx.budget_scale)
    rec = {"out": out.brief(), "res": sha(norm_result(out.value))[:16] if out.kind == "returned" else None}
    if ctx.prop == "C06":
        oracle_c06(op, design, out, ctx)
    return rec


def check_ok(read, check):
    """Cok of the design: no check, or the VT model of the read equals the supplied check."""
    if check is None:
        return True
    if len(check) < 1:
        raise HarnessError("check of length 0 generated")
    if not M.is_acgt(read):
        return False
    return M.vt(read, len(check)) == check


def oracle_c06(op, design, out, ctx):
    st, read, fast, check = ctx.stats, op["read"], op.get("fast", False), op.get("check")
    wk = M.walk(design.rows, op["start"], read)
    det = {"k": design.k, "fast": fast, "n": len(read), "bit_length": op["bit_length"],
           "check": "none" if check is None else "given", "faults": op.get("faults", [])}
    if fast:
        if design.hist[3] > 0:
            return ctx.outside("c06-fast-with-3way")
        if M.carried_bits(wk.degrees) > op["bit_length"]:
            st.vacuous += 1
            st.inc("probes", "c06:fast-outside-precondition")
            if M.carried_bits(wk.degrees) == op["bit_length"] + 1 and wk.is_walk:
                # the canonical strand of an odd-length message that ends on a 4-way vertex: outside C06 as worded
                # ("no more bits than requested"), so no verdict - but what happened is recorded
                st.inc("probes", "c06:fast-odd-tail-" + (out.kind if out.kind != "raised" else str(out.exc_type)))
            return
    cok = check_ok(read, check)
    expect_accept = wk.is_walk and cok
    st.nonvacuous += 1
    if wk.is_walk:
        mismatch = "none"
    elif wk.bad_degree == 0:
        mismatch = "dead"
    elif wk.bad_degree == 1:
        mismatch = "1way"
    else:
        mismatch = "branching"
    cmode = "nocheck" if check is None else ("checkok" if cok else "checkbad")
    st.inc("probes", "c06:%s:%s:%s" % ("fast" if fast else "normal", mismatch, cmode))
    if wk.foreign:
        st.inc("probes", "c06:foreign-char")
    if out.kind == "budget":
        return ctx.fail("returns", "decode exhausted its step budget", **det)
    if expect_accept:
        if out.kind != "returned":
            return ctx.fail("accepts-walks", "decode rejected a walk whose check matches: %s: %s" %
                            (out.exc_type, out.exc_msg), exc=out.exc_type, mismatch=mismatch, cmode=cmode, **det)
        value = out.value
        try:
            entries = numpy.asarray(value).tolist()
            ok = isinstance(value, (numpy.ndarray, list, tuple)) and numpy.asarray(value).ndim == 1
        except Exception:
            entries, ok = [], False
        if not ok or len(entries) != op["bit_length"]:
            return ctx.fail("length", "decode returned %r, not a bit array of length %d" %
                            (getattr(value, "shape", type(value).__name__), op["bit_length"]), **det)
        if not all(b in (0, 1) for b in entries):
            return ctx.fail("length", "decode returned non-bits", **det)
        if op["bit_length"] < len(read):
            st.inc("probes", "c06:accept-truncating")
    else:
        if out.kind == "returned":
            return ctx.fail("rejects-nonwalks", "decode accepted a strand that is %s" %
                            ("not a walk (first non-arc at %d, vertex out-degree %s)" % (wk.first_bad, wk.bad_degree)
                             if not wk.is_walk else "a walk but whose check does not match"),
                            mismatch=mismatch, cmode=cmode, **det)
        if not isinstance(out.exc, ValueError):      # subclasses of ValueError are ValueErrors
            return ctx.fail("valueerror-only", "decode raised %s (%s), not ValueError" % (out.exc_type, out.exc_msg),
                            exc=out.exc_type, mismatch=mismatch, cmode=cmode, empty=len(read) == 0, **det)
    pos = "none" if wk.is_walk else F.classify_position(wk.first_bad, max(len(read), 1), design.k)
    st.states.add("%s/%s/%s/%s/%s/%s" % (mismatch, "+".join(sorted(set(op.get("faults", [])))) or "clean", pos, cmode,
                                         "fast" if fast else "normal", out.kind))


def read_repair(op, world, design, ctx):
    dsw, read, k = world.dsw, op["read"], design.k
    heap = op.get("heap", 1000)
    if heap == "inf":
        heap = float("inf")      # the natural way to ask for an unrestrictive limit
    kwargs = dict(dna_sequence=read, accessor=design.accessor(world.proxy), start_index=_start(op),
                  observed_length=k, vt_check=op.get("check"), has_indel=op.get("has_indel", False), heap_size=heap)
    row_bound, jumps = repair_bounds(len(read), k, 4000 if heap == float("inf") else heap)
    ctx.stats.lib_calls += 1
    out = budgeted(dsw.repair_dna, kwargs, jumps * ctx.budget_scale, row_bound if world.proxy else None)
    rec = {"out": out.brief(), "res": sha(norm_result(out.value))[:16] if out.kind == "returned" else None}
    if ctx.prop == "C10":
        oracle_c10(op, design, out, ctx, row_bound)
    elif ctx.prop == "C09":
        oracle_c09(op, design, out, ctx)
    elif ctx.prop == "C08":
        oracle_c08(op, design, out, ctx)
    return rec


def _repair_shape(value, strict=True):
    """None if well-formed; else a description. strict (C10: "a well-formed (candidates, statistics) pair"): list of str
    and (int, bool, int, int). Otherwise (C08, C09, whose statements only use the candidates and the detected count):
    a pair of a list of str and a sequence that starts with the integral detected count."""
    if not isinstance(value, tuple) or len(value) != 2:
        return "result is not a pair"
    cands, info = value
    if not isinstance(cands, list) or not all(isinstance(c, str) for c in cands):
        return "candidates are not a list of str"
    if not strict:
        try:
            ok = isinstance(info[0], numbers.Integral) and not isinstance(info[0], (bool, numpy.bool_)) and len(info) >= 3
        except Exception:
            ok = False
        return None if ok else "statistics do not start with an integral detected count"
    if not isinstance(info, tuple) or len(info) != 4:
        return "statistics are not a 4-tuple"

    def is_int(x):
        return isinstance(x, numbers.Integral) and not isinstance(x, (bool, numpy.bool_))
    if not (is_int(info[0]) and isinstance(info[1], (bool, numpy.bool_)) and is_int(info[2]) and is_int(info[3])):
        return "statistics are not (int, bool, int, int): %r" % (tuple(type(x).__name__ for x in info),)
    return None


def _first_bad_class(design, start, read):
    wk = M.walk(design.rows, start, read)
    if wk.is_walk:
        return wk, "none"
    p, n, k = wk.first_bad, len(read), design.k
    if p == 0:
        return wk, "0"
    if p < k:
        return wk, "<k"
    if p >= n - k:
        return wk, "last-window"
    return wk, "interior"


def _inf_heap_backstop(op, out, row_bound=None):
    """With an infinite heap limit the candidate product is unbounded by design (exponential in the detections) while
    graph look-ups stay linear: a back-edge trip with look-ups in bound is then no verdict (the generators only give
    an infinite heap to one-error reads; a replayed or minimised trace may not)."""
    return out.kind == "budget" and out.which == "back-edge" and op.get("heap") == "inf" and \
        (row_bound is None or out.rows <= row_bound)


def oracle_c10(op, design, out, ctx, row_bound):
    st, read, k = ctx.stats, op["read"], design.k
    if not M.is_acgt(read) or len(read) < k or not 0 <= op["start"] < 4 ** k:
        return ctx.outside("c10-read")
    wk, where_bad = _first_bad_class(design, op["start"], read)
    det = {"k": k, "n": len(read), "first_bad": where_bad, "start_degree": M.out_degree(design.rows, op["start"]),
           "has_indel": op.get("has_indel", False), "heap": op.get("heap", 1000),
           "check": "none" if op.get("check") is None else "given", "faults": op.get("faults", [])}
    st.nonvacuous += 1
    st.inc("probes", "c10:first-bad-" + where_bad)
    if where_bad == "0":
        st.inc("probes", "c10:first-nucleotide-not-an-arc")
    if _inf_heap_backstop(op, out, row_bound):
        return ctx.outside("inf-heap-backstop")
    if out.kind == "budget":
        return ctx.fail("terminates", "repair_dna did not return within its look-up budget (%s: rows=%d bound=%d, "
                        "back-edges=%d)" % (out.which, out.rows, row_bound, out.jumps), budget=out.which, **det)
    if out.kind == "raised":
        return ctx.fail("no-raise", "repair_dna raised %s: %s" % (out.exc_type, out.exc_msg), exc=out.exc_type, **det)
    st.util("C10.rows", out.rows, row_bound)
    bad = _repair_shape(out.value)
    if bad:
        return ctx.fail("well-formed", bad, **det)
    info = out.value[1]
    detections = int(info[0])
    path = "product" if int(info[2]) > 0 else "fallback"
    st.inc("probes", "c10:path-" + path)
    st.states.add("%s/det%d/%s/k%d" % (where_bad, min(detections, 6), path, k))


def oracle_c09(op, design, out, ctx):
    st, read, k, check = ctx.stats, op["read"], design.k, op.get("check")
    if len(read) < k or not 0 <= op["start"] < 4 ** k:
        return ctx.outside("c09-read")
    if _inf_heap_backstop(op, out):
        return ctx.outside("inf-heap-backstop")
    wk = M.walk(design.rows, op["start"], read)
    det = {"k": k, "n": len(read), "walk": wk.is_walk, "has_indel": op.get("has_indel", False),
           "heap": op.get("heap", 1000), "check": "none" if check is None else "given",
           "faults": op.get("faults", [])}
    if wk.is_walk:
        st.nonvacuous += 1
        cok = check_ok(read, check)
        st.inc("probes", "c09:clean-" + ("nocheck" if check is None else "checkok" if cok else "checkbad"))
        if out.kind != "returned":
            return ctx.fail("clean-untouched", "repair of a clean walk did not return (%s %s)" %
                            (out.kind, out.exc_type or out.which), **det)
        bad = _repair_shape(out.value, strict=False)
        if bad:
            return ctx.fail("clean-untouched", bad, **det)
        cands, info = out.value
        expect = [read] if cok else []
        if cands != expect:
            return ctx.fail("clean-untouched", "clean walk: candidates %r, expected %r" % (cands[:3], expect),
                            cok=cok, **det)
        if int(info[0]) != 0:
            return ctx.fail("clean-untouched", "clean walk reported %d detected errors" % int(info[0]), **det)
    if out.kind != "returned":
        st.vacuous += 1
        st.inc("probes", "c09:not-returned-" + (out.exc_type or out.which or "?"))
        return
    bad = _repair_shape(out.value, strict=False)
    if bad:
        return ctx.fail("sorted-unique", bad, **det)
    cands, info = out.value
    if not wk.is_walk:
        st.nonvacuous += 1
    path = "product" if int(info[2]) > 0 else "fallback"
    if cands != sorted(set(cands)):
        return ctx.fail("sorted-unique", "candidate list is not sorted and duplicate-free: %r" % (cands[:4],),
                        path=path, ncand=len(cands), **det)
    if check is not None:
        for c in cands:
            if not M.is_acgt(c) or M.vt(c, len(check)) != check:
                return ctx.fail("check-consistent", "candidate %r does not reproduce the supplied check %r" %
                                (c, check), path=path, ncand=len(cands), **det)
        st.inc("probes", "c09:%s-check-%s" % (path, "kept" if cands else "all-dropped"))
    else:
        st.inc("probes", "c09:%s-nocheck" % path)
    if len(cands) > 1:
        st.inc("probes", "c09:multi-candidate")
    if bool(info[1]):
        st.inc("probes", "c09:%s-check-dropped-something" % path)
    st.states.add("%s/%s/c%s/%s/heap%s" % (path, "nocheck" if check is None else "check",
                                          "0" if not cands else "1" if len(cands) == 1 else "n",
                                          "+".join(sorted(set(op.get("faults", [])))) or "clean", op.get("heap", 1000)))


def oracle_c08(op, design, out, ctx):
    st, read, k = ctx.stats, op["read"], design.k
    w, edits = op.get("origin"), op.get("edits") or []
    if not design.generated or w is None:
        return ctx.outside("c08-design-not-generated")
    if _inf_heap_backstop(op, out):
        return ctx.outside("inf-heap-backstop")
    n = len(w)
    # preconditions of the property, re-established from the explicit op (so a minimised trace stays inside them)
    wk_w = M.walk(design.rows, op["start"], w)
    pos = sorted(e[1] for e in edits)
    inside = all(k <= p < n - 2 * k for p in pos) and all(b - a >= 3 * k + 2 for a, b in zip(pos, pos[1:]))
    if not wk_w.is_walk or not inside or not edits or M.apply_edits(w, edits) != read:
        st.vacuous += 1
        st.inc("probes", "c08:outside-precondition")
        return
    subs_only = all(e[0] == "S" for e in edits)
    has_indel = op.get("has_indel", False)      # the same default the call itself is made with
    if not has_indel and not subs_only:
        return ctx.outside("c08-indel-off")
    check = op.get("check")
    if check is not None and (len(check) < 1 or check != M.vt(w, len(check))):
        return ctx.outside("c08-check-not-of-w")
    wk = M.walk(design.rows, op["start"], read)
    lags = []
    for e in edits:
        lag = F.detection_lag(design.rows, op["start"], w, e)
        lags.append("u" if lag is None else str(lag))
    det = {"k": k, "n": n, "threshold": design.threshold, "edits": len(edits), "kinds": "".join(e[0] for e in edits),
           "has_indel": has_indel, "check": "none" if check is None else "given", "lags": ",".join(lags)}
    if out.kind != "returned":
        return ctx.fail("returns", "repair_dna did not return under C08's preconditions (%s %s: %s)" %
                        (out.kind, out.exc_type or out.which, out.exc_msg or ""), **det)
    bad = _repair_shape(out.value, strict=False)
    if bad:
        return ctx.fail("returns", bad, **det)
    cands, info = out.value
    detected = int(info[0])
    if len(edits) == 1:
        st.nonvacuous += 1
        if (detected >= 1) != (not wk.is_walk):
            return ctx.fail("single-detected-iff-not-walk", "single %s at %d: detected=%d but corrupted strand is%s a "
                            "walk" % (edits[0][0], edits[0][1], detected, "" if wk.is_walk else " not"), **det)
    if detected == len(edits):
        st.nonvacuous += 1 if len(edits) > 1 else 0
        st.inc("probes", "c08:nonvacuous-%d-edits" % len(edits))
        if w not in cands:
            return ctx.fail("recovers", "detected=%d=|edits| but the original strand is not among the %d candidates"
                            % (detected, len(cands)), ncand=len(cands), **det)
        st.inc("probes", "c08:recovered")
        st.inc("probes", "c08:cands-%s" % ("1" if len(cands) == 1 else "n"))
        for e, lag in zip(edits, lags):
            st.inc("probes", "c08:lag-%s" % lag)
            st.inc("probes", "c08:kind-%s" % e[0])
    else:
        if len(edits) > 1:
            st.vacuous += 1
        st.inc("probes", "c08:detected-%s-edits" % ("lt" if detected < len(edits) else "gt"))
    spacing = "single" if len(pos) == 1 else ("exact" if min(b - a for a, b in zip(pos, pos[1:])) == 3 * k + 2
                                              else "loose")
    if pos[0] == k:
        st.inc("probes", "c08:edit-at-k")
    if pos[-1] == n - 2 * k - 1:
        st.inc("probes", "c08:edit-at-n-2k-1")
    st.states.add("k%d/t%s/%s/%s/%s/%s/%s" % (k, design.threshold, "".join(sorted(e[0] for e in edits)), ",".join(lags),
                                           spacing, "check" if check else "nocheck",
                                           "indel" if has_indel else "subonly"))


def _typed(op, n):
    """Check lengths reach the library as Python ints or as numpy integer scalars (both are integers)."""
    t = op.get("ntype")
    return getattr(numpy, t)(n) if t else n


def op_setvt(op, world, ctx):
    """C07 clause (i): the documented formula, on any ACGT strand, for any check length >= 1."""
    dsw, strand = world.dsw, op["strand"]
    rec = {"out": {"kind": "sim"}, "res": None}
    hashes = []
    for n in op["ns"]:
        ctx.stats.lib_calls += 1
        out = SC.call(dsw.set_vt, dict(dna_sequence=strand, vt_length=_typed(op, n)),
                      jump_budget=200000 + 200 * (len(strand) + n))
        ctx.stats.nonvacuous += 1
        det = {"n_strand": len(strand), "vt_length": n, "empty": len(strand) == 0, "ntype": op.get("ntype")}
        if op.get("ntype"):
            ctx.stats.inc("probes", "c07:numpy-typed-length")
        if out.kind != "returned":
            ctx.fail("formula", "set_vt(len %d strand, %d) did not return: %s %s: %s" %
                     (len(strand), n, out.kind, out.exc_type or out.which, out.exc_msg or ""),
                     exc=out.exc_type or out.kind, **det)
            break
        expect = M.vt(strand, n)
        if not isinstance(out.value, str) or out.value != expect:
            ctx.fail("formula", "set_vt(%r, %d) = %r, documented value %r" % (strand[:40], n, out.value, expect), **det)
            break
        hashes.append(out.value)
        flag, raw = M.vt_raw(strand)
        wrapped = raw >= 4 ** (n - 1)
        ctx.stats.inc("probes", "c07:formula-%s" % ("wrapped" if wrapped else "unwrapped"))
        ctx.stats.states.add("vt/n%d/len%%4=%d/%s" % (n, len(strand) % 4, "wrap" if wrapped else "nowrap"))
    rec["res"] = sha(hashes)[:16]
    return rec


def single_edit_neighbours(strand):
    """Every single substitution, insertion and deletion of a strand (C07/C08 exhaustive neighbourhoods)."""
    n = len(strand)
    for p in range(n):
        for nt in M.NT:
            if nt != strand[p]:
                yield ["S", p, nt]
    for p in range(n + 1):
        for nt in M.NT:
            yield ["I", p, nt]
    for p in range(n):
        yield ["D", p, strand[p]]


def apply_one(strand, e):
    kind, p, nt = e
    if kind == "S":
        return strand[:p] + nt + strand[p + 1:]
    if kind == "I":
        return strand[:p] + nt + strand[p:]
    return strand[:p] + strand[p + 1:]


def op_vtscan(op, world, ctx):
    """C07 fault clause, exhaustive for one strand: every single substitution and every single C/G/T indel must change
    the check (every length in ns) and be rejected by decode with the original check."""
    dsw, strand, st = world.dsw, op["strand"], ctx.stats
    design = world.designs.get(op["design"])
    if design is None:
        return {"out": {"kind": "skipped"}, "res": None}
    acc = design.accessor(world.proxy)
    originals = {}
    for n in op["ns"]:
        out = SC.call(dsw.set_vt, dict(dna_sequence=strand, vt_length=_typed(op, n)), jump_budget=10 ** 6)
        st.lib_calls += 1
        if out.kind == "returned" and isinstance(out.value, str) and out.value != M.vt(strand, n):
            ctx.fail("formula", "set_vt(%r, %s%d) = %r, documented value %r" %
                     (strand[:40], (op.get("ntype") or "") + " ", n, out.value, M.vt(strand, n)),
                     n_strand=len(strand), vt_length=n, ntype=op.get("ntype"))
            return {"out": out.brief(), "res": None}
        if out.kind != "returned" or not isinstance(out.value, str):
            ctx.fail("formula", "set_vt(len %d strand, %d) did not return a string: %s %s" %
                     (len(strand), n, out.exc_type or out.kind, out.exc_msg or ""), exc=out.exc_type or out.kind,
                     n_strand=len(strand), vt_length=n, empty=len(strand) == 0)
            return {"out": out.brief(), "res": None}
        originals[n] = out.value
    if op.get("traffic"):
        # other molecules' reads pass through the same process first: single-edit neighbours of this strand are
        # repaired and decoded against *their own* checks (all legitimate calls; nothing is asserted on them)
        import random as _random
        trng = _random.Random(op.get("tseed", 0))
        neighbours = [e for e in single_edit_neighbours(strand) if e[0] == "S"]
        for e in trng.sample(neighbours, min(op["traffic"], len(neighbours))):
            other = apply_one(strand, e)
            for n in op["ns"]:
                own = M.vt(other, n)
                st.lib_calls += 2
                SC.call(dsw.repair_dna, dict(dna_sequence=other, accessor=acc, start_index=op["start"],
                                             observed_length=design.k, vt_check=own, has_indel=trng.random() < 0.5),
                        jump_budget=repair_bounds(len(other), design.k, 1000)[1])
                SC.call(dsw.decode, dict(dna_sequence=other, bit_length=op["bit_length"], accessor=acc,
                                         start_index=op["start"], vt_check=own),
                        jump_budget=decode_budget(len(other), op["bit_length"]))
        st.inc("probes", "c07:cross-traffic")
    count = 0
    for e in single_edit_neighbours(strand):
        kind, p, nt = e
        asserted = kind == "S" or nt != "A"
        corrupted = apply_one(strand, e)
        st.inc("faults", {"S": "SUB", "I": "INS", "D": "DEL"}[kind] + ("" if asserted else "-A"))
        for n in op["ns"]:
            st.lib_calls += 1
            out = SC.call(dsw.set_vt, dict(dna_sequence=corrupted, vt_length=_typed(op, n)), jump_budget=10 ** 6)
            det = {"n_strand": len(strand), "vt_length": n, "edit": kind, "nt": nt, "ntype": op.get("ntype"),
                   "pos_class": F.classify_position(min(p, max(len(strand) - 1, 0)), max(len(strand), 1), design.k)}
            if out.kind != "returned" or out.value != M.vt(corrupted, n):
                return _fail_rec(ctx, "formula", "set_vt(%r, %d) = %r, documented value %r" %
                                 (corrupted[:40], n, out.value if out.kind == "returned" else out.exc_type,
                                  M.vt(corrupted, n)), det)
            if not asserted:
                continue
            if out.value == originals[n]:
                return _fail_rec(ctx, "single-edit-changes-check", "single %s of %s at %d leaves the %d-nt check "
                                 "unchanged (%s)" % (kind, nt, p, n, out.value), det)
            st.lib_calls += 1
            dec = SC.call(dsw.decode, dict(dna_sequence=corrupted, bit_length=op["bit_length"], accessor=acc,
                                           start_index=op["start"], vt_check=originals[n]),
                          jump_budget=decode_budget(len(corrupted), op["bit_length"]))
            if dec.kind != "raised":    # C07 asks for rejection; the exception type is C06's business
                return _fail_rec(ctx, "decode-rejects-single-edit", "decode with the original %d-nt check %s a strand "
                                 "with a single %s of %s at %d" % (n, "accepted" if dec.kind == "returned" else
                                                                   "did not return on", kind, nt, p), det)
            if dec.exc_type != "ValueError":
                st.inc("probes", "c07:rejected-with-" + str(dec.exc_type))
            count += 1
            st.states.add("scan/n%d/%s/%s%s/%s" % (n, kind, nt, strand[p] if p < len(strand) else "$", det["pos_class"]))
    st.nonvacuous += count
    st.fault_in_op += 1
    return {"out": {"kind": "sim", "neighbours": count}, "res": sha(originals)[:16]}


def _fail_rec(ctx, clause, what, det):
    ctx.fail(clause, what, **det)
    return {"out": {"kind": "violation"}, "res": None}


def op_repairscan(op, world, ctx):
    """C08 exhaustive single-edit neighbourhood of one walk (thorough tier): every position in [k, n-2k) x
    S to each other nucleotide, I of each nucleotide, D."""
    design = world.designs.get(op["design"])
    if design is None:
        return {"out": {"kind": "skipped"}, "res": None}
    w, k = op["origin"], design.k
    n = len(w)
    count = 0
    for p in range(k, n - 2 * k):
        edits = [["S", p, nt] for nt in M.NT if nt != w[p]] + [["I", p, nt] for nt in M.NT] + [["D", p, w[p]]]
        for e in edits:
            sub = {"op": "READ", "mode": "repair", "design": op["design"], "start": op["start"], "origin": w,
                   "edits": [e], "read": apply_one(w, e), "has_indel": True, "heap": op.get("heap", 100000),
                   "check": op.get("check"), "faults": [{"S": "SUB", "I": "INS", "D": "DEL"}[e[0]]]}
            op_read(sub, world, ctx)
            count += 1
            if ctx.violation is not None:
                ctx.violation.detail["scan_edit"] = e
                return {"out": {"kind": "violation", "edit": e}, "res": None}
    return {"out": {"kind": "sim", "neighbours": count}, "res": None}


HANDLERS = {"DESIGN": op_design, "WRITE": op_write, "READ": op_read, "SETVT": op_setvt, "VTSCAN": op_vtscan,
            "REPAIRSCAN": op_repairscan}
