"""Graph / mask / filter populations drawn by the designer client (all seeded, all explicit in the trace)."""
from sim import models as M


def bits(xs):
    return "".join("1" if x else "0" for x in xs)


def random_mask(rng, k, density=None):
    if density is None:
        density = rng.choice([0.3, 0.45, 0.6, 0.75, 0.9, 1.0])
    n = 4 ** k
    mask = [rng.random() < density for _ in range(n)]
    if not any(mask):
        mask[rng.randrange(n)] = True
    return bits(mask)


def random_arcs(rng, k, shape="any", density=None):
    """Arc subset of the order-k de Bruijn graph as a 4^(k+1) bit string (row-major).
    shape: any | fast (out-degrees in {0,1,2,4}) | closed (no arc into a dead vertex, iterated) | sparse-chains"""
    n = 4 ** k
    if density is None:
        density = rng.choice([0.25, 0.4, 0.55, 0.7, 0.85, 0.97])
    arc = [[rng.random() < density for _ in range(4)] for _ in range(n)]
    if shape == "fast":
        for v in range(n):
            if sum(arc[v]) == 3:
                j = rng.choice([j for j in range(4) if arc[v][j]] if rng.random() < 0.5 else [j for j in range(4) if not arc[v][j]])
                arc[v][j] = not arc[v][j]
    if shape == "closed":
        changed = True
        while changed:
            changed = False
            for v in range(n):
                lat = M.latters(v, k)
                for j in range(4):
                    if arc[v][j] and not any(arc[lat[j]]):
                        arc[v][j] = False
                        changed = True
    if not any(any(r) for r in arc):
        v = rng.randrange(n)
        arc[v][rng.randrange(4)] = True
    return "".join(bits(r) for r in arc)


def arcs_to_rows(arcbits, k):
    n = 4 ** k
    rows = []
    for v in range(n):
        lat = M.latters(v, k)
        rows.append([lat[j] if arcbits[4 * v + j] == "1" else -1 for j in range(4)])
    return rows


def rows_to_arcs(rows):
    return "".join("1" if w >= 0 else "0" for r in rows for w in r)


DOC_ROWS = [[-1, -1, -1, -1], [4, -1, -1, 7], [8, -1, -1, 11], [-1, -1, -1, -1],
            [-1, 1, 2, -1], [-1, -1, -1, -1], [-1, -1, -1, -1], [-1, 13, 14, -1],
            [-1, 1, 2, -1], [-1, -1, -1, -1], [-1, -1, -1, -1], [-1, 13, 14, -1],
            [-1, -1, -1, -1], [4, -1, -1, 7], [8, -1, -1, 11], [-1, -1, -1, -1]]


def random_filter(rng, k):
    """A LocalBioFilter configuration its constructor accepts (window-decidable or not - the library decides)."""
    cfg = {"k": k, "runs": None, "gc": None, "motifs": None}
    if rng.random() < 0.8:
        cfg["runs"] = rng.randint(1, max(1, k))
    if rng.random() < 0.7:
        lo = rng.choice([0.0, 0.2, 0.25, 0.3, 0.4, 0.5])
        hi = rng.choice([0.5, 0.6, 0.7, 0.75, 0.8, 1.0])
        if lo > hi:
            lo, hi = hi, lo
        cfg["gc"] = [lo, hi]
    if rng.random() < 0.5:
        motifs = []
        for _ in range(rng.randint(1, 3)):
            length = rng.randint(1 if k == 1 else 2, max(2 if k > 1 else 1, k))
            length = min(length, k)
            motifs.append("".join(rng.choice(M.NT) for _ in range(length)))
        cfg["motifs"] = motifs
    if cfg["runs"] is None and cfg["gc"] is None and cfg["motifs"] is None:
        cfg["runs"] = min(2, k)
    return cfg


def regular_closed_rows(rng, k, d):
    """Closed d-regular arc subset: pick a letter subset per vertex consistently so every live vertex has
    exactly d live successors and every successor is live. Simplest family: restrict the alphabet to d letters."""
    letters = sorted(rng.sample(range(4), d))
    n = 4 ** k
    rows = []
    for v in range(n):
        s = M.kmer(v, k)
        if all(M.NT.index(ch) in letters for ch in s):
            lat = M.latters(v, k)
            rows.append([lat[j] if j in letters else -1 for j in range(4)])
        else:
            rows.append([-1, -1, -1, -1])
    return rows


def regular_norepeat_rows(rng, k, d):
    """Closed d-regular graph with a non-trivial second eigenvalue: k-mers over d+1 letters without equal adjacent
    letters; arcs append any of those letters except the last one."""
    letters = sorted(rng.sample(range(4), d + 1))
    n = 4 ** k
    rows = []
    for v in range(n):
        s = [M.NT.index(ch) for ch in M.kmer(v, k)]
        if all(x in letters for x in s) and all(s[i] != s[i + 1] for i in range(k - 1)):
            lat = M.latters(v, k)
            rows.append([lat[j] if (j in letters and j != s[-1]) else -1 for j in range(4)])
        else:
            rows.append([-1, -1, -1, -1])
    return rows


def regular_dangling_rows(rng, k, d):
    """Closed d-regular graph over a d-letter alphabet plus dangling arcs: some live vertices also point to k-mers
    containing a foreign letter, which have no out-arcs. Every live vertex still has exactly d *live* successors."""
    rows = regular_norepeat_rows(rng, k, d) if rng.random() < 0.6 else regular_closed_rows(rng, k, d)
    n = 4 ** k
    live = [v for v in range(n) if any(w >= 0 for w in rows[v])]
    for v in live:
        lat = M.latters(v, k)
        for j in range(4):
            if rows[v][j] < 0 and rng.random() < 0.4:
                rows[v][j] = lat[j]          # target contains a letter outside the alphabet: it is a dead vertex
    return rows


def cycle_rows(rng, k):
    """A single one-way cycle: the k-mers of a random periodic string, each with exactly one out-arc."""
    for _ in range(200):
        period = rng.randint(max(3, k + 1), 14)
        text = [rng.randrange(4) for _ in range(period)]
        kmers = []
        for i in range(period):
            v = 0
            for j in range(k):
                v = v * 4 + text[(i + j) % period]
            kmers.append(v)
        if len(set(kmers)) == period:
            rows = [[-1, -1, -1, -1] for _ in range(4 ** k)]
            for i in range(period):
                nxt = text[(i + k) % period]
                rows[kmers[i]][nxt] = kmers[(i + 1) % period]
            return rows
    return regular_closed_rows(rng, k, 1)


def hub_rows(rng, k, hub):
    """A sparse graph whose branching runs through one boundary vertex (index 0 = A..A or the last index = T..T): the hub
    has a self-loop and one more arc, all four predecessors of the hub point to it, the rest is a thin random arc set.
    (Sentinel slips such as `> 0` for `>= 0` only show where vertex 0 matters.)"""
    n = 4 ** k
    rows = arcs_to_rows(random_arcs(rng, k, "any", density=rng.choice([0.08, 0.15, 0.25])), k)
    lat = M.latters(hub, k)
    rows[hub] = [-1, -1, -1, -1]
    rows[hub][hub % 4] = hub                      # self-loop: aperiodic
    other = rng.choice([j for j in range(4) if j != hub % 4])
    rows[hub][other] = lat[other]
    for p in M.formers(hub, k):
        rows[p][hub % 4] = hub
    return rows
