"""Process isolation: every simulated run (and every replay attempt of the minimiser) executes in a forked child of a
pristine parent that has imported dsw and installed the seams but has never called into the library. Hidden state a
run leaves behind in the dsw modules therefore cannot leak into the next run: one seed is one repeatable execution,
and a violation that needs such state replays from its own trace alone."""
import os
import pickle
import select
import signal
import struct
import time

from sim.kernel import HarnessError


def _read_exact(fd, n, deadline):
    chunks = []
    while n > 0:
        remaining = deadline - time.time()
        if remaining <= 0:
            raise TimeoutError()
        ready, _, _ = select.select([fd], [], [], min(remaining, 5.0))
        if not ready:
            continue
        b = os.read(fd, min(n, 1 << 20))
        if not b:
            raise EOFError()
        chunks.append(b)
        n -= len(b)
    return b"".join(chunks)


def run(fn, args=(), timeout=600.0, before=None, after=None):
    """Run fn(*args) in a forked child; returns its (picklable) result."""
    r, w = os.pipe()
    pid = os.fork()
    if pid == 0:
        code = 0
        try:
            os.close(r)
            try:
                if before is not None:
                    before()
                payload = ("ok", fn(*args))
            except HarnessError as e:
                payload = ("harness", str(e))
            except BaseException as e:
                import traceback
                payload = ("crash", "%s: %s\n%s" % (type(e).__name__, e, traceback.format_exc()[-1500:]))
            try:
                if after is not None:
                    after()
            except BaseException:
                pass
            data = pickle.dumps(payload, protocol=4)
            view = memoryview(struct.pack("<Q", len(data)) + data)
            while view:
                n = os.write(w, view)
                view = view[n:]
        except BaseException:
            code = 3
        finally:
            os._exit(code)
    os.close(w)
    deadline = time.time() + timeout
    try:
        (n,) = struct.unpack("<Q", _read_exact(r, 8, deadline))
        kind, value = pickle.loads(_read_exact(r, n, deadline))
    except TimeoutError:
        os.kill(pid, signal.SIGKILL)
        os.waitpid(pid, 0)
        os.close(r)
        raise HarnessError("isolated run exceeded %.0fs wall clock (hang outside the step clock?)" % timeout)
    except EOFError:
        _, status = os.waitpid(pid, 0)
        os.close(r)
        raise HarnessError("isolated run died without a result (status %d)" % status)
    os.close(r)
    os.waitpid(pid, 0)
    if kind == "ok":
        return value
    if kind == "harness":
        raise HarnessError(value)
    raise HarnessError("isolated run crashed: " + value)
