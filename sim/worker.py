"""Worker process: a fresh interpreter (its PYTHONHASHSEED fixed by the runner) that serves one block of run seeds,
or minimises / replays one trace. Talks to the parent through one JSON file."""
import faulthandler
import json
import os
import sys
import time

HERE = os.path.dirname(os.path.dirname(os.path.abspath(__file__)))
if HERE not in sys.path:
    sys.path.insert(0, HERE)

from sim import seams  # noqa: E402
from sim.kernel import cjson, sha, HarnessError  # noqa: E402


def engine_for(prop):
    from sim import registry
    return registry.engine(prop)


def merge_stats(total, stats):
    for table in ("ops", "faults", "probes"):
        d = total.setdefault(table, {})
        for k, v in getattr(stats, table).items():
            d[k] = d.get(k, 0) + v
    total["lib_calls"] = total.get("lib_calls", 0) + stats.lib_calls
    total["vacuous"] = total.get("vacuous", 0) + stats.vacuous
    total["nonvacuous"] = total.get("nonvacuous", 0) + stats.nonvacuous
    mu = total.setdefault("max_util", {})
    for k, v in stats.max_util.items():
        if v > mu.get(k, 0.0):
            mu[k] = v
    total.setdefault("states", set()).update(stats.states)
    for k, v in getattr(stats, "extra", {}).items():
        e = total.setdefault("extra", {})
        e[k] = e.get(k, 0) + v


def run_block(prop, tier, first, count, out_path, plain=False, keep_logs=False):
    seams.install()
    from sim import stepclock as SC
    eng = engine_for(prop)
    if hasattr(eng, "prepare"):
        eng.prepare()
    total, digests, violations, samples = {}, [], [], []
    t0 = time.time()
    for seed in range(first, first + count):
        res = eng.run_one(prop, tier, seed, proxy=not plain)
        merge_stats(total, res["stats"])
        digests.append([seed, res["digest"][:20], bool(res["nontrivial"])])
        if res["violation"] is not None and len(violations) < 40:
            violations.append({"seed": seed, "violation": res["violation"].as_dict(), "ops": res["ops"],
                               "config": res["config"]})
        if len(samples) < 2 and res["nontrivial"] and res["violation"] is None:
            samples.append({"seed": seed, "config": res["config"], "ops": res["ops"][:12],
                            "ops_total": len(res["ops"]), "digest": res["digest"][:20]})
    total["states"] = sorted(total.get("states", set()))
    out = {"prop": prop, "tier": tier, "first": first, "count": count, "stats": total, "digests": digests,
           "violations": violations, "samples": samples, "wall_s": time.time() - t0,
           "sim_time": {"back_edges": SC.CLOCK.total_jumps, "row_reads": SC.CLOCK.total_rows,
                        "clock_span_s": eng.clock_span()},
           "hashseed": os.environ.get("PYTHONHASHSEED"), "tree": seams.repo_tree_digest(),
           "rng_none_seeds": seams.RNG.none_seeds}
    with open(out_path, "w") as f:
        f.write(cjson(out))


def do_replay(trace_path, out_path):
    seams.install()
    with open(trace_path) as f:
        trace = json.load(f)
    eng = engine_for(trace["property"])
    if hasattr(eng, "prepare"):
        eng.prepare()
    violation, index, digest = eng.replay(trace["property"], trace)
    out = {"violation": violation.as_dict() if violation is not None else None, "index": index, "digest": digest,
           "tree": seams.repo_tree_digest()}
    with open(out_path, "w") as f:
        f.write(cjson(out))


def do_minimise(trace_path, out_path, max_exec=400):
    seams.install()
    from sim import minimise
    with open(trace_path) as f:
        trace = json.load(f)
    eng = engine_for(trace["property"])
    if hasattr(eng, "prepare"):
        eng.prepare()
    small, executions = minimise.minimise(eng, trace, max_exec=max_exec)
    small["minimised"] = True
    small["original_ops"] = len(trace["ops"])
    small["minimise_executions"] = executions
    with open(out_path, "w") as f:
        f.write(cjson(small))


def main(argv):
    faulthandler.enable()
    mode = argv[1]
    limit = int(os.environ.get("DSW_VERIF_WORKER_TIMEOUT", "1500"))
    faulthandler.dump_traceback_later(limit, exit=True)
    try:
        if mode == "block":
            run_block(argv[2], argv[3], int(argv[4]), int(argv[5]), argv[6], plain="--plain" in argv)
        elif mode == "replay":
            do_replay(argv[2], argv[3])
        elif mode == "minimise":
            do_minimise(argv[2], argv[3])
        else:
            raise HarnessError("mode %r" % mode)
    except HarnessError as e:
        sys.stderr.write("HARNESS-ERROR: %s\n" % e)
        sys.exit(2)
    sys.exit(0)


if __name__ == "__main__":
    main(sys.argv)
