"""Worker process: a fresh interpreter (its PYTHONHASHSEED fixed by the runner) that serves one block of run seeds,
or minimises / replays one trace. Talks to the parent through one JSON file."""
import faulthandler
import json
import os
import sys
import time

HERE = os.path.dirname(os.path.dirname(os.path.abspath(__file__)))
if HERE not in sys.path:
    sys.path.insert(0, HERE)

from sim import seams  # noqa: E402
from sim.kernel import cjson, sha, HarnessError  # noqa: E402


def engine_for(prop):
    from sim import registry
    return registry.engine(prop)


def stats_dict(stats):
    return {"ops": dict(stats.ops), "faults": dict(stats.faults), "probes": dict(stats.probes),
            "states": sorted(stats.states), "lib_calls": stats.lib_calls, "vacuous": stats.vacuous,
            "nonvacuous": stats.nonvacuous, "max_util": dict(stats.max_util), "extra": dict(getattr(stats, "extra", {}))}


def merge_stats(total, st):
    for table in ("ops", "faults", "probes", "extra"):
        d = total.setdefault(table, {})
        for k, v in st.get(table, {}).items():
            d[k] = d.get(k, 0) + v
    for key in ("lib_calls", "vacuous", "nonvacuous"):
        total[key] = total.get(key, 0) + st[key]
    mu = total.setdefault("max_util", {})
    for k, v in st["max_util"].items():
        if v > mu.get(k, 0.0):
            mu[k] = v
    total.setdefault("states", set()).update(st["states"])


def _prepare(eng):
    if hasattr(eng, "prepare"):
        eng.prepare()


def _finish(eng):
    if hasattr(eng, "finish"):
        eng.finish()


def _one_run(eng, prop, tier, seed, plain):
    """Executed in a forked child of the pristine worker."""
    from sim import stepclock as SC
    res = eng.run_one(prop, tier, seed, proxy=not plain)
    return {"ops": res["ops"], "violation": res["violation"].as_dict() if res["violation"] is not None else None,
            "digest": res["digest"], "stats": stats_dict(res["stats"]), "config": res["config"],
            "nontrivial": bool(res["nontrivial"]), "result_digest": res.get("result_digest"),
            "trace_seed": res.get("trace_seed"),
            "sim_time": {"back_edges": SC.CLOCK.total_jumps, "row_reads": SC.CLOCK.total_rows,
                         "clock_span_s": eng.clock_span()},
            "none_seeds": seams.RNG.none_seeds}


def run_block(prop, tier, first, count, out_path, plain=False, keep_logs=False):
    seams.install()           # imports dsw and installs the seams; this process itself never calls into dsw
    from sim import isolate
    eng = engine_for(prop)
    total, digests, violations, samples = {}, [], [], []
    sim_time = {"back_edges": 0, "row_reads": 0, "clock_span_s": 0.0}
    none_seeds = 0
    t0 = time.time()
    for seed in range(first, first + count):
        res = isolate.run(_one_run, (eng, prop, tier, seed, plain), timeout=600.0,
                          before=lambda: _prepare(eng), after=lambda: _finish(eng))
        merge_stats(total, res["stats"])
        digests.append([seed, res["digest"][:20], res["nontrivial"], res.get("result_digest")])
        if res["violation"] is not None and len(violations) < 40:
            violations.append({"seed": seed, "violation": res["violation"], "ops": res["ops"],
                               "config": res["config"], "trace_seed": res.get("trace_seed")})
        if len(samples) < 2 and res["nontrivial"] and res["violation"] is None:
            samples.append({"seed": seed, "config": res["config"], "ops": res["ops"][:12],
                            "ops_total": len(res["ops"]), "digest": res["digest"][:20]})
        for k in ("back_edges", "row_reads"):
            sim_time[k] += res["sim_time"][k]
        sim_time["clock_span_s"] = max(sim_time["clock_span_s"], res["sim_time"]["clock_span_s"])
        none_seeds += res["none_seeds"]
    total["states"] = sorted(total.get("states", set()))
    out = {"prop": prop, "tier": tier, "first": first, "count": count, "stats": total, "digests": digests,
           "violations": violations, "samples": samples, "wall_s": time.time() - t0, "sim_time": sim_time,
           "hashseed": os.environ.get("PYTHONHASHSEED"), "tree": seams.repo_tree_digest(),
           "rng_none_seeds": none_seeds}
    with open(out_path, "w") as f:
        f.write(cjson(out))


def _replay_child(eng, trace):
    violation, index, digest = eng.replay(trace["property"], trace)
    return {"violation": violation.as_dict() if violation is not None else None, "index": index, "digest": digest}


def do_replay(trace_path, out_path):
    seams.install()
    from sim import isolate
    with open(trace_path) as f:
        trace = json.load(f)
    eng = engine_for(trace["property"])
    out = isolate.run(_replay_child, (eng, trace), timeout=900.0, before=lambda: _prepare(eng),
                      after=lambda: _finish(eng))
    out["tree"] = seams.repo_tree_digest()
    with open(out_path, "w") as f:
        f.write(cjson(out))


def do_minimise(trace_path, out_path, max_exec=400):
    seams.install()
    from sim import minimise
    with open(trace_path) as f:
        trace = json.load(f)
    eng = engine_for(trace["property"])
    small, executions = minimise.minimise(eng, trace, max_exec=max_exec,
                                          wall_s=float(os.environ.get("DSW_VERIF_MINIMISE_WALL", "300")))
    small["minimised"] = True
    small["original_ops"] = len(trace["ops"])
    small["minimise_executions"] = executions
    with open(out_path, "w") as f:
        f.write(cjson(small))


def main(argv):
    faulthandler.enable()
    mode = argv[1]
    limit = int(os.environ.get("DSW_VERIF_WORKER_TIMEOUT", "1500"))
    faulthandler.dump_traceback_later(limit, exit=True)
    try:
        if mode == "block":
            run_block(argv[2], argv[3], int(argv[4]), int(argv[5]), argv[6], plain="--plain" in argv)
        elif mode == "replay":
            do_replay(argv[2], argv[3])
        elif mode == "minimise":
            do_minimise(argv[2], argv[3])
        else:
            raise HarnessError("mode %r" % mode)
    except HarnessError as e:
        sys.stderr.write("HARNESS-ERROR: %s\n" % e)
        sys.exit(2)
    sys.exit(0)


if __name__ == "__main__":
    main(sys.argv)
