"""Self-tests of the simulator: determinism (same seed => same event log, across hash seeds, worker counts and fresh
interpreters), transparency of the counting array proxy, sensitivity (seeded faults in a scratch copy must be caught)."""
import json
import os
import shutil
import subprocess
import sys
import tempfile
import time

from sim import runner, registry

ALL = registry.ENGINE_A + registry.ENGINE_B


def _digests(prop, first, n, workers, tmp, hashseed_base, block, plain=False):
    reports = runner.run_blocks(prop, "quick", first, n, workers, tmp, plain=plain, hashseed_base=hashseed_base,
                                block=block)
    errors = [r["error"] for r in reports if "error" in r]
    if errors:
        raise RuntimeError(errors[0])
    out = {}
    for rep in reports:
        for entry in rep["digests"]:
            out[entry[0]] = entry
    return out


def _props(argv, default):
    skip, out = False, []
    for a in argv:
        if skip:
            skip = False
        elif a == "--runs":
            skip = True
        elif not a.startswith("--"):
            out.append(a)
    return out or list(default)


def determinism(argv, seed):
    props = _props(argv, ALL)
    n = int(argv[argv.index("--runs") + 1]) if "--runs" in argv else 200
    first = seed * 10 ** 6 + 500000
    failures = 0
    summary = {}
    t0 = time.time()
    with tempfile.TemporaryDirectory(prefix="dswsim-") as tmp:
        for prop in props:
            a = _digests(prop, first, n, 16, tmp, 0, 7)       # 16 workers, blocks of 7, hash seeds 1..4
            b = _digests(prop, first, n, 3, tmp, 2, 31)       # 3 workers, blocks of 31, hash seeds shifted by two
            diff = [s for s in sorted(a) if a[s][1] != b[s][1]]
            summary[prop] = {"runs": n, "mismatches": len(diff)}
            print("determinism %s: %d seeds x 2 executions (different PYTHONHASHSEED, worker count, block layout, fresh "
                  "interpreters): %d digest mismatch(es)%s" % (prop, n, len(diff), (" e.g. seed %d" % diff[0]) if diff else ""))
            failures += len(diff)
    path = os.path.join(runner.VERIF, "evidence", "selftest-determinism.json")
    with open(path, "w") as f:
        json.dump({"first_seed": first, "summary": summary, "wall_s": round(time.time() - t0, 1)}, f, indent=1,
                  sort_keys=True)
    return 1 if failures else 0


def transparency(argv, seed):
    """Engine A: the same seeds with the counting proxy and with plain arrays must give the same results."""
    props = _props(argv, registry.ENGINE_A)
    n = int(argv[argv.index("--runs") + 1]) if "--runs" in argv else 200
    first = seed * 10 ** 6 + 700000
    failures = 0
    with tempfile.TemporaryDirectory(prefix="dswsim-") as tmp:
        for prop in props:
            a = _digests(prop, first, n, 16, tmp, 0, 13)
            b = _digests(prop, first, n, 16, tmp, 0, 13, plain=True)
            diff = [s for s in sorted(a) if a[s][3] != b[s][3]]
            print("transparency %s: %d seeds with proxy vs plain arrays: %d result mismatch(es)" % (prop, n, len(diff)))
            failures += len(diff)
    return 1 if failures else 0


def _scratch_copy():
    tmp = tempfile.mkdtemp(prefix="dswmut-")
    shutil.copytree(os.path.join(runner.REPO, "dsw"), os.path.join(tmp, "dsw"))
    return tmp


def collect_mutants():
    out = []
    base = os.path.join(runner.VERIF, "mutants")
    if os.path.isdir(base):
        for name in sorted(os.listdir(base)):
            if name.endswith(".diff"):
                prop = name.split("-")[0]
                out.append((name[:-5], prop, os.path.join(base, name), None))
    base = os.path.join(runner.VERIF, "seeded")
    if os.path.isdir(base):
        for name in sorted(os.listdir(base)):
            meta = os.path.join(base, name, "meta.json")
            patch = os.path.join(base, name, "patch.diff")
            if os.path.exists(meta) and os.path.exists(patch):
                with open(meta) as f:
                    m = json.load(f)
                out.append(("seeded/" + name, m["property"], patch, m.get("check_args")))
    return out


def sensitivity(argv, seed):
    """Apply each seeded fault to a scratch copy of /repo/dsw (outside /repo and /verif), run the quick check of its
    property against the copy, expect exit 1 with a VIOLATION line. The copy is removed afterwards."""
    only = _props(argv, [])
    equivalent = {}
    eq_path = os.path.join(runner.VERIF, "mutants", "EQUIVALENT.json")
    if os.path.exists(eq_path):
        with open(eq_path) as f:
            equivalent = json.load(f)
    runs = argv[argv.index("--runs") + 1] if "--runs" in argv else None
    results, missed = [], 0
    for name, prop, patch, check_args in collect_mutants():
        if only and not any(o in name or o == prop for o in only):
            continue
        scratch = _scratch_copy()
        t0 = time.time()
        try:
            p = subprocess.run(["git", "apply", "--unsafe-paths", "--directory=" + scratch, patch], cwd="/",
                               stdout=subprocess.PIPE, stderr=subprocess.PIPE)
            if p.returncode != 0:
                p = subprocess.run(["patch", "-p1", "-d", scratch, "-i", patch], stdout=subprocess.PIPE,
                                   stderr=subprocess.PIPE)
            if p.returncode != 0:
                print("sensitivity %-44s %s: PATCH DOES NOT APPLY: %s" % (name, prop, p.stderr.decode()[-200:]))
                missed += 1
                continue
            env = dict(os.environ, DSW_VERIF_REPO=scratch, VERIF_SEED=str(seed))
            cmd = [os.path.join(runner.VERIF, "check"), prop] + (check_args or ["quick"]) + ["--no-evidence"] + \
                (["--runs", runs] if runs and not check_args else [])
            q = subprocess.run(cmd, env=env, stdout=subprocess.PIPE, stderr=subprocess.PIPE, cwd=runner.VERIF)
            text = q.stdout.decode()
            caught = q.returncode == 1 and "VIOLATION property=%s" % prop in text
            line = [ln for ln in text.splitlines() if ln.startswith("violation ")]
            print("sensitivity %-44s %s: %s (%.0fs) %s" % (name, prop, "caught" if caught else "MISSED rc=%d" % q.returncode,
                                                         time.time() - t0, line[0][:150] if line else ""))
            if not caught and name in equivalent and q.returncode == 0:
                print("            (listed as not a violation of the property as worded: %s)" % equivalent[name][:120])
            elif not caught:
                missed += 1
                sys.stdout.write(q.stderr.decode()[-600:])
            results.append({"mutant": name, "property": prop, "caught": caught, "first": line[0] if line else None,
                            "tier": (check_args or ["quick"])[0],
                            "equivalent": equivalent.get(name) if not caught else None})
            # replay files produced against the scratch copy are not evidence about /repo
            for ln in text.splitlines():
                if ln.startswith("VIOLATION") and "replay=" in ln:
                    path = ln.split("replay=")[1].strip()
                    if os.path.basename(path).startswith("auto-") and os.path.exists(path):
                        os.unlink(path)
        finally:
            shutil.rmtree(scratch, ignore_errors=True)
    path = os.path.join(runner.VERIF, "evidence", "selftest-sensitivity.json")
    merged = {}
    if only and os.path.exists(path):
        with open(path) as f:
            merged = {r["mutant"]: r for r in json.load(f).get("results", [])}
    for r in results:
        merged[r["mutant"]] = r
    ordered = [merged[k] for k in sorted(merged)]
    with open(path, "w") as f:
        json.dump({"results": ordered,
                   "missed": sum(1 for r in ordered if not r["caught"] and not r.get("equivalent"))}, f, indent=1,
                  sort_keys=True)
    print("sensitivity: %d mutant(s), %d missed" % (len(results), missed))
    return 1 if missed else 0
