"""Simulator-side reference models. Small, pure Python, independent of dsw.

Graphs are lists of rows [a, c, g, t] with -1 for a missing arc (`rows`).
"""
NT = "ACGT"


def latters(v, k):
    return [(v * 4 + j) % (4 ** k) for j in range(4)]


def formers(v, k):
    return [v // 4 + j * 4 ** (k - 1) for j in range(4)]


def kmer(v, k):
    s = []
    for _ in range(k):
        s.append(NT[v % 4])
        v //= 4
    return "".join(reversed(s))


def kmer_index(s):
    v = 0
    for ch in s:
        v = v * 4 + NT.index(ch)
    return v


def complete_rows(k):
    return [latters(v, k) for v in range(4 ** k)]


def rows_from_mask(mask, k):
    """Vertex-induced sub-graph of the order-k de Bruijn graph."""
    rows = []
    for v in range(4 ** k):
        if mask[v]:
            rows.append([w if mask[w] else -1 for w in latters(v, k)])
        else:
            rows.append([-1, -1, -1, -1])
    return rows


def out_degree(rows, v):
    return sum(1 for w in rows[v] if w >= 0)


def live_vertices(rows):
    return [v for v in range(len(rows)) if any(w >= 0 for w in rows[v])]


def arcs(rows):
    return [(v, j) for v in range(len(rows)) for j in range(4) if rows[v][j] >= 0]


def coding_graph_model(mask, k, threshold):
    """Greatest fixed point (>= threshold retained successors) and, for threshold 1, removal of every vertex that
    cannot reach a vertex with two or more successors. Returns rows or None (empty)."""
    n = 4 ** k
    keep = [bool(x) for x in mask]
    changed = True
    while changed:
        changed = False
        for v in range(n):
            if keep[v] and sum(1 for w in latters(v, k) if keep[w]) < threshold:
                keep[v] = False
                changed = True
    if threshold == 1:
        while True:
            rows = rows_from_mask(keep, k)
            good = set(v for v in range(n) if keep[v] and out_degree(rows, v) >= 2)
            grew = True
            while grew:
                grew = False
                for v in range(n):
                    if keep[v] and v not in good and any(w in good for w in rows[v] if w >= 0):
                        good.add(v)
                        grew = True
            new_keep = [v in good for v in range(n)]
            # dropping vertices may starve others of successors
            again = True
            while again:
                again = False
                for v in range(n):
                    if new_keep[v] and sum(1 for w in latters(v, k) if new_keep[w]) < 1:
                        new_keep[v] = False
                        again = True
            if new_keep == keep:
                break
            keep = new_keep
    if not any(keep):
        return None
    return rows_from_mask(keep, k)


class Walk(object):
    __slots__ = ("is_walk", "first_bad", "bad_degree", "vertices", "degrees", "foreign")


def walk(rows, start, s):
    """Follow s from start. first_bad = index of the first character that is not an arc (None if s is a walk)."""
    w = Walk()
    w.vertices, w.degrees, w.first_bad, w.bad_degree, w.foreign = [], [], None, None, False
    v = start
    for i, ch in enumerate(s):
        d = out_degree(rows, v)
        j = NT.find(ch) if len(ch) == 1 else -1
        if j < 0 or rows[v][j] < 0:
            w.first_bad, w.bad_degree, w.foreign = i, d, j < 0
            break
        w.degrees.append(d)
        v = rows[v][j]
        w.vertices.append(v)
    w.is_walk = w.first_bad is None
    return w


def vt(s, n):
    """Documented check: flag = sum of values mod 4; value = sum of 0-based ascent positions mod 4^(n-1),
    big-endian base 4 on n-1 symbols. Defined for the empty strand. Requires s over ACGT and n >= 1."""
    vals = [NT.index(ch) for ch in s]
    flag = sum(vals) % 4
    value = sum(i for i in range(len(vals) - 1) if vals[i + 1] > vals[i]) % (4 ** (n - 1))
    digits = []
    for _ in range(n - 1):
        digits.append(NT[value % 4])
        value //= 4
    return NT[flag] + "".join(reversed(digits))


def vt_raw(s):
    vals = [NT.index(ch) for ch in s]
    return sum(vals) % 4, sum(i for i in range(len(vals) - 1) if vals[i + 1] > vals[i])


def is_acgt(s):
    return all(ch in NT for ch in s) and all(len(ch) == 1 for ch in s)


def apply_edits(s, edits):
    """edits: list of [kind, position (original coordinates), nucleotide]; S replaces s[p], I inserts before s[p],
    D deletes s[p]. Applied in descending position so original coordinates stay valid."""
    out = list(s)
    # descending position; at one position the substitution / deletion of s[p] comes before an insertion in front of it
    for kind, p, nt in sorted(edits, key=lambda e: (-e[1], 1 if e[0] == "I" else 0)):
        if kind == "S":
            out[p] = nt
        elif kind == "I":
            out.insert(p, nt)
        elif kind == "D":
            del out[p]
        else:
            raise ValueError(kind)
    return "".join(out)


def carried_bits(degrees):
    """Fast mode: bits carried by a walk prefix (4-way -> 2, 2-way -> 1, 1-way -> 0)."""
    total = 0
    for d in degrees:
        if d == 4:
            total += 2
        elif d == 2:
            total += 1
    return total


def random_walk(rng, rows, start, n):
    """Seeded random walk of length n from start; None if it hits a dead end."""
    v, out = start, []
    for _ in range(n):
        choices = [j for j in range(4) if rows[v][j] >= 0]
        if not choices:
            return None
        j = rng.choice(choices)
        out.append(NT[j])
        v = rows[v][j]
    return "".join(out)


def degree_multiset(rows):
    hist = [0, 0, 0, 0, 0]
    for v in range(len(rows)):
        hist[out_degree(rows, v)] += 1
    return hist


def rows_key(rows):
    return "".join("".join("1" if w >= 0 else "0" for w in r) for r in rows)


def check_rows_shape(rows, k):
    """True iff every entry is -1 or the de Bruijn shift successor of its column."""
    for v in range(4 ** k):
        lat = latters(v, k)
        for j in range(4):
            if rows[v][j] not in (-1, lat[j]):
                return False
    return True


def intersection_scores(arc_set, k, has_insertion=True, has_deletion=True):
    """Reference model of the intersection score of every arc (v, j) of a graph given as a set of arcs:
    with leaves(x) = set of end points of the (k-1)-step walks from x (a vertex without arcs contributes nothing),
    substitution: for every unordered pair of out-arcs of v, |leaves(s1) U leaves(s2)| is added to both arcs;
    insertion:    for every out-arc v->s and every out-arc s->t, |leaves(s) U leaves(t)| is added to v->s;
    deletion:     for every out-arc v->s, |leaves(s) U leaves(v)| is added to v->s."""
    succ = {}
    for (v, j) in sorted(arc_set):
        succ.setdefault(v, []).append(latters(v, k)[j])
    depth = k - 1
    cache = {}

    def leaves(x):
        if x not in cache:
            frontier = [x]
            for _ in range(depth):
                nxt = []
                for u in frontier:
                    nxt.extend(succ.get(u, []))
                frontier = nxt
            cache[x] = frozenset(frontier)
        return cache[x]

    scores = {}
    for v, outs in succ.items():
        branch = [leaves(s) for s in outs]
        for a in range(len(outs)):
            for b in range(a + 1, len(outs)):
                sc = len(branch[a] | branch[b])
                scores[(v, outs[a] % 4)] = scores.get((v, outs[a] % 4), 0) + sc
                scores[(v, outs[b] % 4)] = scores.get((v, outs[b] % 4), 0) + sc
        if has_insertion:
            for i, s_ in enumerate(outs):
                for t in succ.get(s_, []):
                    scores[(v, s_ % 4)] = scores.get((v, s_ % 4), 0) + len(branch[i] | leaves(t))
        if has_deletion:
            own = leaves(v)
            for i, s_ in enumerate(outs):
                scores[(v, s_ % 4)] = scores.get((v, s_ % 4), 0) + len(branch[i] | own)
    return scores


def safe_starts(rows):
    """Vertices from which encode terminates for every message: every reachable vertex has an out-arc and can reach a
    branching vertex."""
    n = len(rows)
    s = set(v for v in range(n) if out_degree(rows, v) >= 1)
    changed = True
    while changed:
        changed = False
        for v in sorted(s):
            if any(w not in s for w in rows[v] if w >= 0):
                s.discard(v)
                changed = True
        good = set(v for v in s if out_degree(rows, v) >= 2)
        grew = True
        while grew:
            grew = False
            for v in s:
                if v not in good and any(w in good for w in rows[v] if w >= 0):
                    good.add(v)
                    grew = True
        if good != s:
            s, changed = good, True
    return sorted(s)
