"""Probes every check is expected to hit in its quick tier; a probe stuck at zero is listed in the evidence file
(`probes_at_zero`) and means the swarm weights must change."""
EXPECTED = {
    "C04": ["c04:empty-strand", "c04:fast-odd-on-4way", "c04:msg-empty", "c04:msg-leading-zeros", "c04:msg-random",
            "c04:msg-single-one", "c04:msg-zero", "c04:shuffle-at-2way", "c04:shuffle-at-3way", "c04:visit-1way",
            "c04:visit-2way", "c04:visit-3way", "c04:visit-4way", "design:mask", "design:filter",
            "design:equals-fixed-point-model"],
    "C06": ["c06:large-strand-first", "c06:accept-truncating", "c06:fast-outside-precondition", "c06:foreign-char"] +
           ["c06:%s:%s:%s" % (m, w, c) for m in ("normal", "fast") for w in ("none", "branching", "1way", "dead")
            for c in ("nocheck", "checkok", "checkbad")],
    "C07": ["c07:formula-unwrapped", "c07:formula-wrapped"],
    "C08": ["c08:cands-1", "c08:cands-n", "c08:edit-at-k", "c08:edit-at-n-2k-1", "c08:kind-D", "c08:kind-I",
            "c08:kind-S", "c08:lag-0", "c08:lag-1", "c08:lag-2", "c08:lag-3", "c08:lag-4", "c08:nonvacuous-1-edits",
            "c08:nonvacuous-2-edits", "c08:nonvacuous-3-edits", "c08:nonvacuous-4-edits", "c08:recovered"],
    "C09": ["c09:clean-checkbad", "c09:clean-checkok", "c09:clean-nocheck", "c09:fallback-check-all-dropped",
            "c09:fallback-check-kept", "c09:fallback-nocheck", "c09:multi-candidate", "c09:product-check-all-dropped",
            "c09:product-check-kept", "c09:product-nocheck"],
    "C10": ["c10:first-bad-0", "c10:first-bad-<k", "c10:first-bad-interior", "c10:first-bad-last-window",
            "c10:first-bad-none", "c10:first-nucleotide-not-an-arc", "c10:path-fallback", "c10:path-product"],
    "C17": ["c17:certified-random-start", "c17:certified-single-start", "c17:graph-acyclic", "c17:graph-arcless",
            "c17:graph-certified", "c17:graph-multi-cyclic", "c17:graph-periodic", "c17:regular-d1", "c17:regular-d2",
            "c17:regular-d3", "c17:regular-d4", "c17:stop-tolerance", "c17:stop-median-fallback"],
    "C18": ["c18:digitmap-cases", "c18:fresh-equal", "c18:repeat-of-earlier-table", "c18:seed-none"],
    "C19": ["c19:key-deleted", "c19:ran-to-exhaustion", "c19:removal", "c19:tie-for-maximum",
            "c19:interleaved-encode", "c19:interleaved-decode", "c19:interleaved-repair_dna",
            "c19:interleaved-approximate_capacity", "c19:interleaved-calculate_intersection_score",
            "c19:interleaved-accessor_to_latter_map", "c19:interleaved-latter_map_to_accessor"],
    "C20": ["c20:fresh-equal", "c20:outcome-returned", "c20:outcome-raised:ValueError", "c20:verbose-on",
            "c20:verbose-off", "c20:verbose-printed"],
}
