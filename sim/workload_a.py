"""Engine A workloads: clients, the pool, the seeded scheduler, per-property swarm profiles, run and replay."""
from sim import models as M
from sim import graphs as G
from sim import faults as F
from sim import seams
from sim import stepclock as SC
from sim import engine_a as A
from sim.kernel import EventLog, stream, weighted, HarnessError, TRACE_FORMAT

ALL_FAULTS = ("NONE", "SUB", "INS", "DEL", "MULTI", "BURST", "TRUNC", "EXTEND", "FOREIGN", "RANDOM", "EMPTY")
META_FAULTS = ("CHECK_CORRUPT", "CHECK_MISROUTED", "CHECK_ABSENT", "START_MISROUTED", "GRAPH_SKEW")

CHECK_LENGTHS = (1, 2, "k+1", 5, 12, 31, 32, 33, 40, 70)


def profile(prop, tier):
    q = tier == "quick"
    p = {"prop": prop, "k_weights": [(1, 2), (2, 4), (3, 4), (4, 2 if q else 3), (5, 1 if q else 2)] + ([] if q else [(6, 1)]),
         "max_ops": (20, 60), "designs": (1, 3), "populations": [("mask", 4), ("filter", 2), ("rows", 4), ("fast-rows", 2),
                                                                 ("closed-rows", 2), ("doc", 1), ("trim", 1)],
         "clients": ["designer", "writer", "synth", "sequencer", "reader"], "reader_mode": "repair",
         "faults": list(ALL_FAULTS), "meta": list(META_FAULTS), "msg_max": 64 if q else 256,
         "strand_max": 80 if q else 240, "heaps": [0.5, 1, 10, 1000], "fault_weights": {}}
    if prop == "C04":
        p.update(populations=[("mask", 5), ("filter", 3), ("mask-t1", 3)], clients=["designer", "writer"],
                 msg_max=96 if q else 512, max_ops=(20, 50),
                 k_weights=[(1, 2), (2, 4), (3, 4), (4, 2), (5, 1), (6, 0.2 if q else 1), (7, 0.13 if q else 0.7)])
    elif prop == "C06":
        p.update(reader_mode="decode")
    elif prop == "C07":
        p.update(reader_mode="vt", clients=["designer", "writer", "synth", "sequencer", "reader", "scanner"],
                 strand_max=60 if q else 160, max_ops=(15, 40))
    elif prop == "C08":
        p.update(populations=[("mask", 5), ("filter", 3), ("mask-t1", 2)], faults=["SPACED"], meta=["CHECK_RIGHT"],
                 clients=["designer", "writer", "synth", "sequencer", "reader"] + ([] if q else ["scanner8"]),
                 heaps=[100000], k_weights=[(1, 2), (2, 4), (3, 4), (4, 2), (5, 1)], max_ops=(20, 50))
    elif prop == "C09":
        p.update(faults=["NONE", "SUB", "INS", "DEL", "MULTI", "BURST", "TRUNC", "EXTEND", "FOREIGN", "RANDOM", "MASSIVE"],
                 fault_weights={"NONE": 4})
    elif prop == "C10":
        p.update(faults=["NONE", "SUB", "INS", "DEL", "MULTI", "BURST", "TRUNC", "EXTEND", "RANDOM", "FIRST", "LASTWIN",
                         "MASSIVE"],
                 fault_weights={"FIRST": 3, "LASTWIN": 3, "RANDOM": 2, "MULTI": 2, "BURST": 2},
                 meta=["CHECK_CORRUPT", "CHECK_MISROUTED", "CHECK_ABSENT", "START_MISROUTED", "GRAPH_SKEW"])
    return p


class Config(object):
    """Swarm configuration of one run, resolved from the `config` stream and logged first."""

    def __init__(self, prof, rng):
        self.k = weighted(rng, prof["k_weights"])
        self.max_ops = rng.randint(*prof["max_ops"])
        self.n_designs = rng.randint(*prof["designs"])
        pops = prof["populations"]
        keep = [pw for pw in pops if rng.random() < 0.7] or [rng.choice(pops)]
        self.populations = keep
        enabled = [f for f in prof["faults"] if rng.random() < 0.6] or [rng.choice(prof["faults"])]
        if "NONE" in prof["faults"] and "NONE" not in enabled and rng.random() < 0.7:
            enabled.append("NONE")
        self.fault_weights = [(f, prof["fault_weights"].get(f, 1)) for f in enabled]
        self._prof_faults = prof["faults"]
        self.meta = [m for m in prof["meta"] if rng.random() < 0.5]
        self.msg_max = rng.choice([8, 24, prof["msg_max"]])
        self.strand_max = rng.choice([max(12, 6 * self.k + 6), 40, prof["strand_max"]])
        self.fast_share = rng.choice([0.0, 0.3, 0.6])
        self.table_share = rng.choice([0.0, 0.5])
        self.check_share = rng.choice([0.0, 0.4, 0.8])
        self.lag_pref = rng.choice([None, None, "zero", "max", "undetectable"])
        self.mixed_k = rng.random() < 0.3
        self.marathon = prof["prop"] in ("C09", "C10") and rng.random() < 1.0 / 500
        if self.marathon:
            # one long-lived process: thousands of reads on one order-6 graph (state that only builds up over a long
            # history - memo tables, grow-only buffers - is reached here and nowhere else)
            self.k, self.n_designs, self.max_ops = 6, 1, rng.randint(2500, 3500)
            self.populations = [("rows", 1)]
            self.strand_max = 120
            self.fault_weights = [("RANDOM", 6), ("MULTI", 2), ("LASTWIN", 2), ("TRUNC", 1), ("NONE", 1)]
            self.meta = []
        self.ultra = prof["prop"] in ("C09", "C10") and not self.marathon and rng.random() < 1.0 / 1200
        if self.ultra:
            # a one-way cycle (every error site has exactly one repair, so the candidate product stays 1) read with
            # more than a thousand separated substitutions
            self.k, self.n_designs, self.max_ops = rng.choice([2, 3]), 1, rng.randint(6, 12)
            self.populations = [("cycle", 1)]
            self.fault_weights, self.meta = [("ULTRA", 1)], []
        self.long_strands = prof["prop"] in ("C08", "C09", "C10", "C06") and rng.random() < 0.05 and not self.marathon \
            and not self.ultra
        if self.long_strands:
            self.n_designs = max(self.n_designs, 2)      # several graphs (of different order) served by one process
            if "MASSIVE" in self._prof_faults and "MASSIVE" not in [f for f, _ in self.fault_weights]:
                self.fault_weights.append(("MASSIVE", 3))
            self.mixed_k = True
            self.max_ops = min(self.max_ops, 30)

    def as_dict(self):
        return {"k": self.k, "max_ops": self.max_ops, "n_designs": self.n_designs,
                "populations": [p for p, _ in self.populations], "faults": [f for f, _ in self.fault_weights],
                "meta": self.meta, "msg_max": self.msg_max, "strand_max": self.strand_max,
                "fast_share": self.fast_share, "table_share": self.table_share, "check_share": self.check_share,
                "lag_pref": self.lag_pref, "mixed_k": self.mixed_k, "long_strands": self.long_strands,
                "marathon": self.marathon, "ultra": self.ultra}


class Molecule(object):
    def __init__(self, ident, design, start, strand, bits=None, fast=False, table=None, check=None, kind="walk"):
        self.id, self.design, self.start, self.strand = ident, design, start, strand
        self.bits, self.fast, self.table, self.check, self.kind = bits, fast, table, check, kind


# ----------------------------------------------------------------------------------------------------------------
# clients
# ----------------------------------------------------------------------------------------------------------------
class Client(object):
    name = "client"

    def __init__(self, sim):
        self.sim, self.done = sim, False
        self.rng = stream(sim.seed, "client/" + self.name)

    def step(self):
        return None

    def deliver(self, op, rec):
        pass


class Designer(Client):
    name = "designer"

    def __init__(self, sim):
        Client.__init__(self, sim)
        self.count = 0
        self.history = []

    def step(self):
        sim, rng, cfg = self.sim, self.rng, self.sim.cfg
        made = len(sim.world.designs)
        limit = cfg.n_designs + (8 if sim.prop == "C04" else 5 if sim.prop in ("C06", "C09", "C10") else 3)
        if self.count >= limit or (made >= cfg.n_designs and rng.random() < (0.6 if sim.prop == "C04" else 0.85)):
            return None
        ident = "D%d" % self.count
        self.count += 1
        if sim.prop == "C04" and self.history and rng.random() < 0.35:
            # histories around generation: the owner screens a generated graph in place, or generates again from
            # equal arguments (what was generated before must not matter)
            if rng.random() < 0.5:
                again = dict(rng.choice(self.history), id=ident)
                self.history.append(again)
                return again
            targets = [d for _, d in sorted(sim.world.designs.items()) if d.generated and d.k <= 3 and
                       getattr(d, "raw", None) is not None and len(M.arcs(d.rows)) > 2]
            if targets:
                return {"op": "DESIGN", "id": ident, "kind": "trim-inplace", "k": targets[0].k,
                        "target": rng.choice(targets).id, "removals": rng.randint(1, 8), "ins": rng.random() < 0.7,
                        "del": rng.random() < 0.7}
        if sim.prop in ("C06", "C09", "C10") and rng.random() < 0.25:
            targets = [d for _, d in sorted(sim.world.designs.items()) if d.k <= 3 and len(M.arcs(d.rows)) > 3]
            if targets:
                return {"op": "DESIGN", "id": ident, "kind": "trim-inplace", "k": targets[0].k,
                        "target": rng.choice(targets).id, "removals": rng.randint(1, 4), "ins": rng.random() < 0.7,
                        "del": rng.random() < 0.7}
        pop = weighted(rng, cfg.populations)
        k = cfg.k
        if cfg.mixed_k and rng.random() < 0.5 and not cfg.marathon:
            k = weighted(rng, sim.prof["k_weights"])
        if pop == "trim":
            bases = [d for d in sim.world.designs.values() if d.k <= 3 and d.source != "trim" and len(M.arcs(d.rows)) > 2]
            if not bases:
                pop = "rows"
            else:
                base = rng.choice(sorted(bases, key=lambda d: d.id))
                return {"op": "DESIGN", "id": ident, "kind": "trim", "k": base.k, "base": base.id,
                        "removals": rng.randint(1, 5), "ins": rng.random() < 0.7, "del": rng.random() < 0.7}
        if pop == "doc":
            return {"op": "DESIGN", "id": ident, "kind": "doc", "k": 2}
        if pop in ("mask", "mask-t1"):
            threshold = 1 if pop == "mask-t1" else weighted(rng, [(1, 2), (2, 4), (3, 2), (4, 1)])
            density = rng.choice([0.35, 0.5, 0.65, 0.8, 0.9, 1.0]) if threshold < 3 else rng.choice([0.8, 0.9, 0.97, 1.0])
            op = {"op": "DESIGN", "id": ident, "kind": "mask", "k": k, "mask": G.random_mask(rng, k, density),
                  "threshold": threshold, "dtype": rng.choice(["bool", "int"])}
            self.history.append(op)
            return op
        if pop == "filter":
            return {"op": "DESIGN", "id": ident, "kind": "filter", "k": k, "filter": G.random_filter(rng, k),
                    "threshold": weighted(rng, [(1, 3), (2, 4), (3, 1)])}
        if pop == "cycle":
            return {"op": "DESIGN", "id": ident, "kind": "rows", "k": k, "arcs": G.rows_to_arcs(G.cycle_rows(rng, k))}
        shape = {"rows": "any", "fast-rows": "fast", "closed-rows": "closed"}[pop]
        density = rng.choice([0.25, 0.4, 0.55]) if cfg.marathon else None   # sparse: a random read has many detections
        return {"op": "DESIGN", "id": ident, "kind": "rows", "k": k, "arcs": G.random_arcs(rng, k, shape, density)}


def pick_design(rng, world, pred=None):
    ds = [d for _, d in sorted(world.designs.items()) if pred is None or pred(d)]
    return rng.choice(ds) if ds else None


def random_bits(rng, L, cls=None):
    cls = cls or rng.choice(["random", "random", "zero", "leading-zeros", "single-one", "ones"])
    if L == 0:
        return ""
    if cls == "zero":
        return "0" * L
    if cls == "ones":
        return "1" * L
    if cls == "single-one":
        p = rng.randrange(L)
        return "0" * p + "1" + "0" * (L - p - 1)
    s = "".join(rng.choice("01") for _ in range(L))
    if cls == "leading-zeros":
        z = rng.randint(1, max(1, L // 2))
        s = "0" * z + s[z:]
    return s


class Writer(Client):
    name = "writer"

    def step(self):
        sim, rng, cfg = self.sim, self.rng, self.sim.cfg
        generated_only = sim.prop in ("C04", "C08")
        design = pick_design(rng, sim.world, (lambda d: d.generated) if generated_only else None)
        if design is None or not design.live:
            return None
        hot = design.suspicious_starts() if design.generated else []
        if hot and rng.random() < 0.6:
            start = rng.choice(hot)          # a generated graph must not have such vertices: write right there
            sim.stats.inc("probes", "c04:write-next-to-dangling-arc")
        elif generated_only or rng.random() < 0.9:
            # every class of retained start vertex
            by_deg = {}
            for v in design.live:
                by_deg.setdefault(M.out_degree(design.rows, v), []).append(v)
            start = rng.choice(by_deg[rng.choice(sorted(by_deg))])
        else:
            start = rng.randrange(4 ** design.k)
        L = rng.choice([0, 1, 2, 3, rng.randint(0, cfg.msg_max), rng.randint(0, cfg.msg_max)])
        fast = design.hist[3] == 0 and rng.random() < cfg.fast_share
        if sim.prop == "C08":
            fast, L = False, rng.randint(8 * design.k + 8, max(8 * design.k + 9, cfg.msg_max * 2))
        bits = random_bits(rng, L)
        if fast and L % 2 == 1 and rng.random() < 0.5:
            pass  # odd-length fast message: may end on a 4-way vertex (probe)
        op = {"op": "WRITE", "design": design.id, "start": start, "bits": bits, "fast": fast,
              "table": A.random_table_digits(rng, design.k) if rng.random() < cfg.table_share else None,
              "vt": 0}
        if rng.random() < cfg.check_share:
            n = rng.choice(CHECK_LENGTHS)
            op["vt"] = design.k + 1 if n == "k+1" else n
        if rng.random() < 0.2:
            op["np_start"] = True
        if op["table"] and rng.random() < 0.25:
            op["table_dtype"] = rng.choice(["uint8", "int8", "int32", "uint16"])     # same rows, another integer dtype
        # drawn from a stream of its own, so every other choice of the run is what it was without these two features
        aux = self.__dict__.setdefault("aux", stream(sim.seed, "writer-aux"))
        if aux.random() < 0.2:
            op["bits_dtype"] = aux.choice(["uint8", "int8", "int16", "int32", "int64", "uint64"])
        elif sim.prop == "C04" and 0 < L <= 24 and aux.random() < 0.15:
            op["twin"] = {"dtype": aux.choice(["uint8", "uint8", "int8", "int16", "int32"]),
                          "order": aux.choice(["before", "after"])}
        return op

    def deliver(self, op, rec):
        sim = self.sim
        strand = rec.get("strand")
        if isinstance(strand, str) and M.is_acgt(strand):
            mol = Molecule("M%d" % len(sim.world.molecules), op["design"], op["start"], strand, bits=op["bits"],
                           fast=op["fast"], table=op.get("table"), check=rec.get("check"), kind="written")
            sim.world.molecules.append(mol)


class Synth(Client):
    """Stores seeded random walks of a design as molecules ("every walk w")."""
    name = "synth"

    def step(self):
        sim, rng, cfg = self.sim, self.rng, self.sim.cfg
        generated_only = sim.prop == "C08"
        design = pick_design(rng, sim.world, (lambda d: d.generated) if generated_only else None)
        if design is None or not design.live:
            return None
        k = design.k
        start = rng.choice(design.live)
        lo = 6 * k + 4 if sim.prop == "C08" else k
        n = rng.randint(lo, max(lo, cfg.strand_max))
        if sim.prop != "C08" and rng.random() < 0.15:
            n = rng.choice([k, k + 1, 2 * k, 2 * k + 1])
        if cfg.ultra:
            n = rng.randint(5000, 9000)
        if cfg.long_strands and rng.random() < 0.5:
            n = rng.choice([255, 256, 257, 511, 512, 513, 600, 600, 700, 700])   # word / buffer boundaries, many-error reads
            sim.stats.inc("probes", "pool:long-strand")
        strand = M.random_walk(rng, design.rows, start, n)
        if strand is None:
            # dead end: keep the walkable prefix if it is long enough
            v, out = start, []
            for _ in range(n):
                choices = [j for j in range(4) if design.rows[v][j] >= 0]
                if not choices:
                    break
                j = rng.choice(choices)
                out.append(M.NT[j])
                v = design.rows[v][j]
            strand = "".join(out)
            if len(strand) < k or sim.prop == "C08":
                return None
        self.made = getattr(self, "made", 0) + 1
        mol = Molecule("W%d" % self.made, design.id, start, strand, kind="walk")
        if len(sim.world.molecules) >= 60:
            sim.world.molecules[rng.randrange(len(sim.world.molecules))] = mol     # the pool turns over
        else:
            sim.world.molecules.append(mol)
        sim.progress = True
        sim.pool_event({"pool": "SYNTH", "mol": mol.id, "design": design.id, "n": len(strand)})
        return None


class Sequencer(Client):
    """The pool: turns a stored molecule into noisy reads (faults land here) and queues them."""
    name = "sequencer"

    def step(self):
        sim, rng, cfg = self.sim, self.rng, self.sim.cfg
        mols = sim.world.molecules
        if not mols or len(sim.world.reads) > 12:
            return None
        mol = rng.choice(mols[-6:]) if rng.random() < 0.7 else rng.choice(mols)
        copies = rng.choice([1, 1, 2, 3, 4])
        if copies > 1:
            sim.stats.inc("faults", "DUP")
        for _ in range(copies):
            read_op = self.plan(mol)
            if read_op is None:
                continue
            if rng.random() < 0.08:
                sim.stats.inc("faults", "LOSS")
                sim.pool_event({"pool": "LOSS", "mol": mol.id})
                continue
            at = rng.randint(0, len(sim.world.reads))
            if at != len(sim.world.reads):
                sim.stats.inc("faults", "REORDER")
            sim.world.reads.insert(at, read_op)
            sim.progress = True
            sim.pool_event({"pool": "SEQUENCE", "mol": mol.id, "faults": read_op["faults"], "at": at})
        return None

    # -- fault planning ----------------------------------------------------------------------------------------
    def plan(self, mol):
        sim, rng, cfg = self.sim, self.rng, self.sim.cfg
        world, prop = sim.world, sim.prop
        design = world.designs[mol.design]
        k, w, n = design.k, mol.strand, len(mol.strand)
        rows, start = design.rows, mol.start
        kind = weighted(rng, cfg.fault_weights)
        edits, faults, read = [], [], w
        if kind == "SPACED":
            return self.plan_c08(mol, design)
        if kind == "NONE" or n == 0 and kind not in ("EXTEND", "RANDOM", "EMPTY", "FOREIGN"):
            pass
        elif kind in ("SUB", "INS", "DEL"):
            e = F.biased_single_edit(rng, rows, start, w, k, kind={"SUB": "S", "INS": "I", "DEL": "D"}[kind],
                                     lag_pref=cfg.lag_pref)
            edits, faults = [e], [kind]
        elif kind == "FIRST":
            e = F.make_edit(rng, w, 0)
            edits, faults = [e], ["FIRST-" + e[0]]
        elif kind == "LASTWIN":
            p = F.position_in_class(rng, rng.choice(["last-window", "last", "n-2k"]), n, k)
            e = F.make_edit(rng, w, p if p is not None else n - 1)
            edits, faults = [e], ["LASTWIN-" + e[0]]
        elif kind == "MULTI":
            m = rng.randint(2, 6)
            if rng.random() < 0.5:
                edits = F.spaced_edits(rng, rows, start, w, k, min(m, 4)) or F.dense_edits(rng, w, k, m)
            else:
                edits = F.dense_edits(rng, w, k, m)
            faults = ["MULTI"]
        elif kind == "BURST":
            edits, faults = F.dense_edits(rng, w, k, rng.randint(2, 5), burst=True), ["BURST"]
        elif kind == "ULTRA":
            gap = k + 2 + rng.randint(0, 2)
            edits = [F.make_edit(rng, w, p, "S") for p in range(k + 1, n - k, gap)]
            faults = ["ULTRA"]
        elif kind == "MASSIVE":
            # tens of separated errors on one long read (the candidate product explodes; the heap guard must hold)
            m = rng.randint(30, 90) if n >= 300 else rng.randint(4, 8)
            gap = max(2 * k + 2, n // (m + 1))
            pos = [p for p in range(k + 1, n - k, gap)][:m]
            edits = [F.make_edit(rng, w, p, "S" if rng.random() < 0.8 else None) for p in pos]
            faults = ["MASSIVE"] if n >= 300 else ["MULTI"]
        if edits:
            read = M.apply_edits(w, edits)
        if kind == "TRUNC":
            lo = 0 if prop in ("C06", "C07") else k
            cut = rng.choice([lo, k, max(lo, n - 1), rng.randint(lo, max(lo, n))])
            cut = min(max(cut, lo), n)
            if cut < n:
                read, faults = w[:cut], ["TRUNC"]
        elif kind == "EXTEND":
            read, faults = w + "".join(rng.choice(M.NT) for _ in range(rng.randint(1, k + 3))), ["EXTEND"]
        elif kind == "FOREIGN":
            ch = rng.choice(F.FOREIGN)
            p = rng.randint(0, max(0, n - 1)) if n else 0
            read = (w[:p] + ch + w[p + 1:]) if (n and rng.random() < 0.6) else (w[:p] + ch + w[p:])
            faults = ["FOREIGN"]
        elif kind == "RANDOM":
            m = n if n >= k else k
            if cfg.marathon:
                m = rng.randint(40, 120)      # unrelated strands of ordinary length, whatever the molecule was
            read, faults = "".join(rng.choice(M.NT) for _ in range(m)), ["RANDOM"]
        elif kind == "EMPTY":
            read, faults = "", ["EMPTY"]
        # minimum length / alphabet preconditions of the reader's property
        if prop in ("C09", "C10") and len(read) < k:
            return None
        if prop == "C10" and not M.is_acgt(read):
            return None
        # metadata faults
        rdesign, rstart, check = design, start, None
        want_check = mol.check is not None or rng.random() < cfg.check_share
        if want_check:
            length = len(mol.check) if mol.check else rng.choice([1, 2, k + 1, 5, 8, 12])
            check = mol.check if mol.check else M.vt(w, length)
            if "CHECK_ABSENT" in cfg.meta and rng.random() < 0.2:
                check, faults = None, faults + ["CHECK_ABSENT"]
            elif "CHECK_CORRUPT" in cfg.meta and rng.random() < 0.25:
                check, faults = F.corrupt_check(rng, check), faults + ["CHECK_CORRUPT"]
                if not check:
                    check = "A"
            elif "CHECK_MISROUTED" in cfg.meta and rng.random() < 0.2 and len(world.molecules) > 1:
                other = rng.choice(world.molecules)
                if other.id != mol.id and M.is_acgt(other.strand):
                    check, faults = M.vt(other.strand, rng.choice([length, length + 1])), faults + ["CHECK_MISROUTED"]
        if "START_MISROUTED" in cfg.meta and rng.random() < 0.15:
            rstart, faults = rng.randrange(4 ** k), faults + ["START_MISROUTED"]
        if "GRAPH_SKEW" in cfg.meta and rng.random() < 0.3:
            skewed = [d for _, d in sorted(world.designs.items()) if d.base == design.id]
            if skewed:
                rdesign, faults = rng.choice(skewed), faults + ["GRAPH_SKEW"]
        op = {"op": "READ", "mode": sim.prof["reader_mode"], "design": rdesign.id, "start": rstart, "mol": mol.id,
              "origin": w, "edits": edits, "read": read, "faults": faults, "check": check}
        if rng.random() < 0.2:
            op["np_start"] = True
        if op["mode"] == "decode":
            exact = len(mol.bits) if mol.bits is not None else 2 * n
            op["bit_length"] = max(0, rng.choice([exact, exact, 0, exact // 2, exact + rng.randint(1, 9), 2 * len(read) + 2]))
            op["fast"] = rdesign.hist[3] == 0 and (mol.fast or rng.random() < 0.3)
            op["table"] = mol.table if rng.random() < 0.8 else None
            if op["table"] and rng.random() < 0.25:
                op["table_dtype"] = rng.choice(["uint8", "int8", "int32", "uint16"])
            if rng.random() < 0.15:
                op["np_bitlen"] = rng.choice(["int64", "int32", "uint16", "uint8", "int8"])
        elif op["mode"] == "repair":
            op["has_indel"] = rng.random() < 0.6 and kind != "ULTRA"
            op["heap"] = rng.choice(sim.prof["heaps"]) if kind != "ULTRA" else 1000
            if len(edits) <= (2 if k <= 2 else 1) and kind in ("NONE", "SUB", "INS", "DEL", "FIRST", "LASTWIN", "TRUNC") \
                    and rdesign is design and rstart == start and rng.random() < 0.12 \
                    and M.walk(rdesign.rows, rstart, w).is_walk:      # (the graph may have been screened in place since)
                # an infinite heap limit is only given to reads with at most two errors on the writer's own graph and
                # start vertex: with it the candidate product is unbounded by design (exponential in the detections)
                op["heap"] = "inf"
        return op

    def plan_c08(self, mol, design):
        sim, rng, cfg = self.sim, self.rng, self.sim.cfg
        k, w, n = design.k, mol.strand, len(mol.strand)
        if n < 6 * k + 4:
            return None
        subs_only = rng.random() < 0.3
        m = weighted(rng, [(1, 5), (2, 3), (3, 2), (4, 1)])
        edits = None
        while m >= 1 and edits is None:
            edits = F.spaced_edits(rng, design.rows, mol.start, w, k, m, subs_only=subs_only, lag_pref=cfg.lag_pref)
            m -= 1
        if not edits:
            return None
        check = None
        faults = sorted({"S": "SUB", "I": "INS", "D": "DEL"}[e[0]] for e in edits)
        if rng.random() < cfg.check_share:
            check = M.vt(w, rng.choice([1, k + 1, 8]))
            faults.append("CHECK_RIGHT")
        return {"op": "READ", "mode": "repair", "design": design.id, "start": mol.start, "mol": mol.id, "origin": w,
                "edits": edits, "read": M.apply_edits(w, edits), "faults": faults, "check": check,
                "has_indel": True if not subs_only else rng.random() < 0.5,
                "heap": "inf" if (len(edits) <= 2 and rng.random() < 0.2) else 100000}


class Reader(Client):
    name = "reader"

    def step(self):
        sim = self.sim
        if not sim.world.reads:
            return None
        op = sim.world.reads.pop(0)
        if op["mode"] == "vt":
            strand = op["read"]
            if not M.is_acgt(strand):
                strand = "".join(c for c in strand if c in M.NT)
            ns = [op_n if op_n != "k+1" else sim.world.designs[op["design"]].k + 1 for op_n in CHECK_LENGTHS]
            for f in op["faults"]:
                sim.stats.inc("faults", f)
            new = {"op": "SETVT", "strand": strand, "ns": ns, "faults": op["faults"]}
            r = stream(sim.seed, "ntype/%d" % len(sim.ops))
            if r.random() < 0.2:
                new["ntype"] = r.choice(["int64", "int64", "int32", "int16", "uint8", "int8"])
            return new
        if op.get("heap") == "inf":
            # the read was planned earlier; the graph may have been screened in place since. An infinite heap limit is
            # only kept when the original strand is still a walk of the graph as it is at delivery (at most two errors)
            design = sim.world.designs.get(op["design"])
            origin = op.get("origin")
            if design is None or origin is None or not M.walk(design.rows, op["start"], origin).is_walk:
                op = dict(op, heap=1000)
        return op


class Scanner(Client):
    """C07: exhaustive single-edit neighbourhood of stored strands."""
    name = "scanner"

    def __init__(self, sim):
        Client.__init__(self, sim)
        self.scanned = set()

    def step(self):
        sim, rng = self.sim, self.rng
        mols = [m for m in sim.world.molecules if m.id not in self.scanned]
        if not mols or rng.random() < 0.5:
            return None
        mol = rng.choice(mols)
        self.scanned.add(mol.id)
        design = sim.world.designs[mol.design]
        strand = mol.strand[:rng.choice([len(mol.strand), 1, 2, 3, design.k, 40])]
        ns = sorted(set(rng.sample([1, 2, design.k + 1, 5, 12, 31, 32, 33, 40, 70], 3)))
        if rng.random() < 0.25:
            # the formula clause on long strands (byte / word / power-of-4 boundaries); linear cost
            n = rng.choice([255, 256, 257, 1023, 1024, 1025, 2047, 2048, 4095, 4096, 4097]) + rng.choice([0, 0, 1, 7])
            if rng.random() < 0.12:
                n = rng.choice([65535, 65536, 76001, 100003, 131072])     # position sums beyond 2^31
                ns = sorted(set(ns + [rng.choice([18, 20, 33])]))
            body = "".join(rng.choice(M.NT) for _ in range(n)) if rng.random() < 0.7 else \
                "".join(rng.choice("TGCA"[i % 4] + "A") for i in range(n))
            self.sim.stats.inc("probes", "c07:long-strand-formula")
            long_op = {"op": "SETVT", "strand": body, "ns": ns + [rng.choice([2, 3, 4, 6])], "faults": []}
            if rng.random() < 0.3:
                long_op["ntype"] = rng.choice(["int64", "int32", "int16", "uint8"])
            return long_op
        op = {"op": "VTSCAN", "design": mol.design, "start": mol.start, "strand": strand, "ns": ns,
              "bit_length": len(mol.bits) if mol.bits is not None else 2 * len(strand)}
        if rng.random() < 0.15:
            op["ntype"] = rng.choice(["int64", "int64", "int32", "int16", "uint8", "int8"])
        if rng.random() < 0.5 and len(strand) >= design.k:
            # cross-traffic: reads of neighbouring molecules are repaired / decoded against their own checks first
            op["traffic"] = rng.randint(1, 6)
            op["tseed"] = rng.getrandbits(30)
        return op


class Scanner8(Client):
    """C08 thorough tier: exhaustive single-edit neighbourhood of a sampled walk."""
    name = "scanner8"

    def __init__(self, sim):
        Client.__init__(self, sim)
        self.budget = 1

    def step(self):
        sim, rng = self.sim, self.rng
        mols = [m for m in sim.world.molecules if sim.world.designs[m.design].generated]
        if not mols or self.budget <= 0 or rng.random() < 0.8:
            return None
        mol = rng.choice(mols)
        design = sim.world.designs[mol.design]
        k = design.k
        w = mol.strand[:min(len(mol.strand), 6 * k + 4 + rng.randint(0, 20))]
        if len(w) < 6 * k + 4:
            return None
        self.budget -= 1
        return {"op": "REPAIRSCAN", "design": mol.design, "start": mol.start, "origin": w, "heap": 100000,
                "check": M.vt(w, k + 1) if rng.random() < 0.4 else None}


CLIENTS = {"designer": Designer, "writer": Writer, "synth": Synth, "sequencer": Sequencer, "reader": Reader,
           "scanner": Scanner, "scanner8": Scanner8}


# ----------------------------------------------------------------------------------------------------------------
# one simulated run
# ----------------------------------------------------------------------------------------------------------------
class Sim(object):
    def __init__(self, prop, tier, seed, proxy=True):
        self.prop, self.tier, self.seed = prop, tier, seed
        self.prof = profile(prop, tier)
        self.cfg = Config(self.prof, stream(seed, "config"))
        self.world = A.World(prop, proxy=proxy)
        self.stats = A.Stats()
        self.ctx = A.Ctx(prop, self.stats)
        self.log = EventLog()
        self.ops = []
        self.progress = False
        self.results = []
        self.sched = stream(seed, "schedule")

    def pool_event(self, rec):
        self.log.append(rec)

    def run_huge(self, lengths=(7150, 7400), probe="c06:huge-strand"):
        """Thorough tier of C06, one run in ~1500: a single very long walk (payloads beyond 14 000 bits, where
        decimal-string <-> int shortcuts and quadratic arithmetic break) decoded clean and with one foreign tail."""
        rng = stream(self.seed, "huge")
        k = rng.choice([1, 2])
        self.log.append({"seed": self.seed, "prop": self.prop, "tier": self.tier, "config": "huge-strand"})
        ops = [{"op": "DESIGN", "id": "D0", "kind": "rows", "k": k, "arcs": "1" * (4 ** (k + 1))}]
        n = rng.randint(*lengths)
        w = "".join(rng.choice(M.NT) for _ in range(n))
        base = {"op": "READ", "mode": "decode", "design": "D0", "start": rng.randrange(4 ** k), "origin": w, "edits": [],
                "fast": False, "table": None, "check": None, "bit_length": 2 * n}
        ops.append(dict(base, read=w, faults=[]))
        ops.append(dict(base, read=w[:-1] + "N", faults=["FOREIGN"]))
        for op in ops:
            rec = A.execute(op, self.world, self.ctx)
            self.ops.append(op)
            self.log.append({"i": len(self.ops) - 1, "op": dict(op, read=None, origin=None), "out": rec.get("out"),
                             "res": rec.get("res")})
            self.results.append([(rec.get("out") or {}).get("kind"), (rec.get("out") or {}).get("type"), rec.get("res")])
            if self.ctx.violation is not None:
                break
        self.stats.inc("probes", probe)
        return self.ctx.violation

    def run(self):
        seams.begin_run(stream(self.seed, "rngseam"))
        if self.tier == "thorough" and self.prop == "C06" and stream(self.seed, "huge?").random() < 1.0 / 1500:
            return self.run_huge()
        if self.prop == "C06" and stream(self.seed, "large?").random() < 1.0 / 1600:
            # both tiers, one run in ~1600: the first long strand this process ever decodes is 2 100 - 3 300 nt long
            # (beyond any 1k / 2k / 4k-bit internal buffer or chunk), decoded clean and with one foreign tail
            return self.run_huge(lengths=(2100, 3300), probe="c06:large-strand-first")
        self.log.append({"seed": self.seed, "prop": self.prop, "tier": self.tier, "config": self.cfg.as_dict()})
        clients = [CLIENTS[name](self) for name in self.prof["clients"] if not (self.cfg.marathon and name == "writer")]
        idle = spins = 0
        # the designer always goes first: nothing can run without a design
        order_bias = {"designer": 3.0}
        while len(self.ops) < self.cfg.max_ops and idle < 6 * len(clients):
            if not self.world.designs:
                client = clients[0]
            else:
                client = weighted(self.sched, [(c, order_bias.get(c.name, 1.0) if len(self.world.designs) <
                                                self.cfg.n_designs else 1.0) for c in clients])
            self.progress = False
            op = client.step()
            if op is None:
                idle = 0 if self.progress else idle + 1     # pool-internal steps (synthesis, sequencing) are progress
                spins += 1
                if spins > 40 * self.cfg.max_ops + 400:
                    break
                continue
            idle = 0
            rec = A.execute(op, self.world, self.ctx)
            self.ops.append(op)
            self.log.append({"i": len(self.ops) - 1, "op": op, "out": rec.get("out"), "res": rec.get("res")})
            self.results.append([(rec.get("out") or {}).get("kind"), (rec.get("out") or {}).get("type"), rec.get("res")])
            client.deliver(op, rec)
            if self.ctx.violation is not None:
                break
        return self.ctx.violation


def replay_ops(prop, ops, proxy=True, budget_scale=1, seed=0):
    """Re-execute an explicit operation list (the replay artefact) with the oracles of `prop`."""
    seams.begin_run(stream(seed, "rngseam"))
    world = A.World(prop, proxy=proxy)
    stats = A.Stats()
    ctx = A.Ctx(prop, stats, budget_scale=budget_scale)
    log = EventLog()
    for i, op in enumerate(ops):
        rec = A.execute(op, world, ctx)
        log.append({"i": i, "op": op, "out": rec.get("out"), "res": rec.get("res")})
        if ctx.violation is not None:
            return ctx.violation, i, log, stats
    return None, len(ops), log, stats


# ----------------------------------------------------------------------------------------------------------------
# engine adapter (used by worker / runner / minimiser)
# ----------------------------------------------------------------------------------------------------------------
def run_one(prop, tier, seed, proxy=True):
    sim = Sim(prop, tier, seed, proxy=proxy)
    violation = sim.run()
    st = sim.stats
    nontrivial = st.fault_in_op > 0 if prop != "C04" else st.nonvacuous > 0
    if prop == "C07":
        nontrivial = st.nonvacuous > 0 and (st.fault_in_op > 0 or bool(st.faults))
    from sim.kernel import sha
    for name, u in A.JUMP_UTIL.items():
        if u > st.max_util.get(name, 0.0):
            st.max_util[name] = u
    return {"ops": sim.ops, "violation": violation, "digest": sim.log.digest(), "stats": st,
            "config": sim.cfg.as_dict(), "nontrivial": nontrivial, "result_digest": sha(sim.results)[:20]}


def replay(prop, trace):
    violation, index, log, stats = replay_ops(prop, trace["ops"], proxy=trace.get("proxy", True),
                                              seed=trace.get("seed", 0))
    return violation, index, log.digest()


def clock_span():
    return seams.CLOCKSEAM.span_seconds()


def _derived_read(op):
    try:
        return op.get("origin") is not None and M.apply_edits(op["origin"], op.get("edits", [])) == op["read"]
    except Exception:
        return False


def simplifications(ops):
    """Candidate simplifications of the last (failing) op and of the designs it uses; each is a full op list."""
    last = ops[-1]
    head = ops[:-1]

    def with_last(**changes):
        new = dict(last)
        new.update(changes)
        return head + [new]

    name = last["op"]
    if name == "READ":
        derived = _derived_read(last)
        if derived and last.get("edits"):
            for i in range(len(last["edits"])):
                edits = last["edits"][:i] + last["edits"][i + 1:]
                yield with_last(edits=edits, read=M.apply_edits(last["origin"], edits))
            for i, e in enumerate(last["edits"]):
                if e[0] != "S" and e[1] < len(last["origin"]):
                    nt = [c for c in M.NT if c != last["origin"][e[1]]][0]
                    edits = last["edits"][:i] + [["S", e[1], nt]] + last["edits"][i + 1:]
                    yield with_last(edits=edits, read=M.apply_edits(last["origin"], edits))
            # shorten the origin from the end (edits must stay inside)
            w = last["origin"]
            top = max(e[1] for e in last["edits"])
            for cut in (len(w) // 2, len(w) - 4, len(w) - 1):
                if cut > top + 1 and cut < len(w):
                    yield with_last(origin=w[:cut], read=M.apply_edits(w[:cut], last["edits"]))
        else:
            read = last["read"]
            for cut in (len(read) // 2, len(read) - 4, len(read) - 1):
                if 0 <= cut < len(read):
                    yield with_last(read=read[:cut], origin=None, edits=[])
        if last.get("check") is not None:
            yield with_last(check=None)
            if len(last["check"]) > 1:
                yield with_last(check=last["check"][:1])
        if last.get("has_indel"):
            yield with_last(has_indel=False)
        if last.get("heap") not in (None, 1000):
            yield with_last(heap=1000)
        if last.get("table"):
            yield with_last(table=None)
        if last.get("fast"):
            yield with_last(fast=False)
        if last.get("bit_length"):
            yield with_last(bit_length=0)
            yield with_last(bit_length=last["bit_length"] // 2)
    elif name == "WRITE":
        bits = last["bits"]
        for cut in (len(bits) // 2, len(bits) - 2, len(bits) - 1):
            if 0 <= cut < len(bits):
                yield with_last(bits=bits[:cut])
                yield with_last(bits=bits[len(bits) - cut:])
        if "1" in bits:
            i = bits.index("1")
            yield with_last(bits=bits[:i] + "0" + bits[i + 1:])
        if last.get("table"):
            yield with_last(table=None)
        if last.get("vt"):
            yield with_last(vt=0)
        if last.get("fast"):
            yield with_last(fast=False)
    elif name in ("SETVT", "VTSCAN"):
        s = last["strand"]
        for cut in (0, len(s) // 2, len(s) - 1):
            if 0 <= cut < len(s):
                yield with_last(strand=s[:cut])
                yield with_last(strand=s[len(s) - cut:] if cut else "")
        if len(last["ns"]) > 1:
            for n in last["ns"]:
                yield with_last(ns=[n])
    elif name == "REPAIRSCAN":
        w = last["origin"]
        for cut in (len(w) - 1, len(w) - 4):
            if cut > 0:
                yield with_last(origin=w[:cut])
        if last.get("check"):
            yield with_last(check=None)
    # designs: towards denser masks / fewer arcs changed
    for i, op in enumerate(ops[:-1]):
        if op["op"] != "DESIGN":
            continue
        if op["kind"] == "mask":
            mask = op["mask"]
            zeros = [j for j, c in enumerate(mask) if c == "0"]
            if zeros:
                full = dict(op, mask="1" * len(mask))
                yield ops[:i] + [full] + ops[i + 1:]
                for j in zeros[:8]:
                    yield ops[:i] + [dict(op, mask=mask[:j] + "1" + mask[j + 1:])] + ops[i + 1:]
            if op.get("dtype") == "int":
                yield ops[:i] + [dict(op, dtype="bool")] + ops[i + 1:]
        elif op["kind"] == "rows":
            arcs = op["arcs"]
            zeros = [j for j, c in enumerate(arcs) if c == "0"]
            if zeros:
                yield ops[:i] + [dict(op, arcs="1" * len(arcs))] + ops[i + 1:]
        elif op["kind"] == "trim" and op["removals"] > 1:
            yield ops[:i] + [dict(op, removals=op["removals"] - 1)] + ops[i + 1:]
