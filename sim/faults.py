"""Fault catalogue of the simulated DNA pool (DESIGN 4.1). Every function takes a seeded stream and returns explicit
edits / strings; a fault is counted only when it lands in a delivered read."""
from sim import models as M

EDIT_KINDS = ("S", "I", "D")

POSITION_CLASSES = ("first", "lt-k", "eq-k", "interior", "n-2k-1", "n-2k", "last-window", "last")


def position_in_class(rng, cls, n, k):
    """A position of the requested class in a strand of length n (None if the class is empty)."""
    if n <= 0:
        return None
    if cls == "first":
        return 0
    if cls == "lt-k":
        return rng.randrange(0, min(k, n)) if min(k, n) > 0 else None
    if cls == "eq-k":
        return k if k < n else None
    if cls == "interior":
        lo, hi = k, n - 2 * k
        return rng.randrange(lo, hi) if hi > lo else None
    if cls == "n-2k-1":
        p = n - 2 * k - 1
        return p if 0 <= p < n else None
    if cls == "n-2k":
        p = n - 2 * k
        return p if 0 <= p < n else None
    if cls == "last-window":
        lo = max(0, n - k)
        return rng.randrange(lo, n)
    if cls == "last":
        return n - 1
    raise ValueError(cls)


def classify_position(p, n, k):
    if p == 0:
        return "first"
    if p == n - 1:
        return "last"
    if p >= n - k:
        return "last-window"
    if p < k:
        return "lt-k"
    if p == k:
        return "eq-k"
    if p == n - 2 * k - 1:
        return "n-2k-1"
    if p == n - 2 * k:
        return "n-2k"
    if p > n - 2 * k:
        return "tail"
    return "interior"


def make_edit(rng, w, p, kind=None):
    kind = kind or rng.choice(EDIT_KINDS)
    if kind == "S":
        nt = rng.choice([c for c in M.NT if c != w[p]])
    elif kind == "I":
        nt = rng.choice(M.NT)
    else:
        nt = w[p]
    return [kind, p, nt]


def detection_lag(rows, start, w, edit):
    """Lag between the edited position and the first non-arc of the corrupted read (None = undetectable)."""
    read = M.apply_edits(w, [edit])
    wk = M.walk(rows, start, read)
    if wk.is_walk:
        return None
    return wk.first_bad - edit[1]


def biased_single_edit(rng, rows, start, w, k, kind=None, cls=None, lag_pref=None, lo=None, hi=None):
    """One edit; position from a class (or [lo, hi)), optionally biased to a detection-lag class:
    lag_pref in (None, "zero", "max", "undetectable")."""
    n = len(w)
    candidates = []
    for _ in range(6 if lag_pref else 1):
        if lo is not None:
            if hi <= lo:
                return None
            p = rng.randrange(lo, hi)
        else:
            p = position_in_class(rng, cls or rng.choice(POSITION_CLASSES), n, k)
            if p is None:
                p = rng.randrange(n)
        e = make_edit(rng, w, p, kind)
        if not lag_pref:
            return e
        candidates.append((e, detection_lag(rows, start, w, e)))
    if lag_pref == "zero":
        pick = [e for e, lag in candidates if lag == 0]
    elif lag_pref == "max":
        lags = [lag for _, lag in candidates if lag is not None]
        pick = [e for e, lag in candidates if lag is not None and lag == max(lags)] if lags else []
    else:
        pick = [e for e, lag in candidates if lag is None]
    return (pick or [candidates[0][0]])[0]


def spaced_positions(rng, n, k, m, mode):
    """m positions in [k, n-2k), pairwise >= 3k+2 apart; mode: "exact" (spacing exactly 3k+2 from a boundary-biased
    anchor), "loose". Returns sorted list or None when the strand is too short."""
    lo, hi, gap = k, n - 2 * k, 3 * k + 2
    if hi - lo < 1 + (m - 1) * gap:
        return None
    if mode == "exact":
        span = (m - 1) * gap
        anchor_choices = [lo, hi - 1 - span]
        if hi - 1 - span > lo:
            anchor_choices.append(rng.randrange(lo, hi - span))
        a = rng.choice(anchor_choices)
        return [a + i * gap for i in range(m)]
    # loose: distribute the slack at random
    slack = (hi - lo) - (1 + (m - 1) * gap)
    cuts = sorted(rng.randint(0, slack) for _ in range(m))
    if rng.random() < 0.3:
        cuts[0] = 0          # first edit on the lower boundary k
    if rng.random() < 0.3:
        cuts[-1] = slack     # last edit on the upper boundary n-2k-1
    cuts.sort()
    return [lo + c + i * gap for i, c in enumerate(cuts)]


def spaced_edits(rng, rows, start, w, k, m, subs_only=False, mode=None, lag_pref=None):
    mode = mode or rng.choice(["exact", "loose"])
    pos = spaced_positions(rng, len(w), k, m, mode)
    if pos is None:
        return None
    edits = []
    for p in pos:
        kind = "S" if subs_only else rng.choice(EDIT_KINDS)
        if lag_pref:
            e = None
            best = None
            for _ in range(5):
                cand = make_edit(rng, w, p, kind)
                lag = detection_lag(rows, start, w, cand)
                ok = (lag_pref == "zero" and lag == 0) or (lag_pref == "max" and lag == k - 1) or \
                     (lag_pref == "undetectable" and lag is None)
                best = best or cand
                if ok:
                    e = cand
                    break
            edits.append(e or best)
        else:
            edits.append(make_edit(rng, w, p, kind))
    return edits


def dense_edits(rng, w, k, m, burst=False):
    """m edits anywhere (outside C08's spacing rule); burst = adjacent positions."""
    n = len(w)
    if n == 0:
        return []
    if burst:
        a = rng.randrange(n)
        pos = [min(n - 1, a + i) for i in range(m)]
    else:
        pos = [rng.randrange(n) for _ in range(m)]
    pos = sorted(set(pos))
    return [make_edit(rng, w, p) for p in pos]


FOREIGN = ["N", "a", "c", " ", "-", "é", "U", "0", "\n"]


def corrupt_check(rng, check):
    if not check:
        return "A"
    choice = rng.random()
    p = rng.randrange(len(check))
    if choice < 0.6:
        return check[:p] + rng.choice([c for c in M.NT if c != check[p]]) + check[p + 1:]
    if choice < 0.75 and len(check) > 1:
        return check[:p] + check[p + 1:]
    if choice < 0.9:
        return check[:p] + rng.choice(M.NT) + check[p:]
    return check[:p] + rng.choice(FOREIGN) + check[p + 1:]
