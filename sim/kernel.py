"""Simulator kernel: seeded streams, canonical JSON, event log, digests.

One integer (the run seed) decides everything: every choice of a run is drawn from a named stream
derived from the run seed; logging never draws from a stream and never reads a real clock.
"""
import hashlib
import json
import random

TRACE_FORMAT = "dsw-sim-trace/1"


def stream(seed, name):
    """Independent PRNG stream for (run seed, name)."""
    material = hashlib.sha256(("%d/%s" % (seed, name)).encode()).digest()
    return random.Random(int.from_bytes(material[:16], "big"))


def cjson(obj):
    return json.dumps(obj, sort_keys=True, separators=(",", ":"), ensure_ascii=True, default=_default)


def _default(o):
    # numpy scalars / arrays that slipped into a record
    try:
        import numpy
        if isinstance(o, numpy.generic):
            return o.item()
        if isinstance(o, numpy.ndarray):
            return o.tolist()
    except ImportError:  # pragma: no cover
        pass
    if isinstance(o, (set, frozenset)):
        return sorted(o)
    if isinstance(o, tuple):
        return list(o)
    raise TypeError("not JSON serialisable: %r" % type(o))


def sha(obj):
    if isinstance(obj, bytes):
        return hashlib.sha256(obj).hexdigest()
    if isinstance(obj, str):
        return hashlib.sha256(obj.encode()).hexdigest()
    return hashlib.sha256(cjson(obj).encode()).hexdigest()


class EventLog(object):
    """Append-only canonical log of one run; its SHA-256 is the run digest."""

    def __init__(self):
        self.records = []
        self._h = hashlib.sha256()

    def append(self, record):
        line = cjson(record)
        self._h.update(line.encode())
        self._h.update(b"\n")
        self.records.append(record)

    def digest(self):
        return self._h.hexdigest()


class Violation(Exception):
    """Raised by an oracle; carries the structured detail the known-finding predicates look at."""

    def __init__(self, prop, clause, what, detail=None):
        Exception.__init__(self, "%s/%s: %s" % (prop, clause, what))
        self.prop, self.clause, self.what, self.detail = prop, clause, what, dict(detail or {})

    def as_dict(self):
        return {"property": self.prop, "clause": self.clause, "what": self.what, "detail": self.detail}


class HarnessError(Exception):
    """The simulator itself is wrong (missing seam, impossible state): exit 2, never a verdict."""


def weighted(rng, table):
    """table: list of (item, weight) -> one item."""
    total = sum(w for _, w in table)
    x = rng.random() * total
    acc = 0.0
    for item, w in table:
        acc += w
        if x < acc:
            return item
    return table[-1][0]


class Counter2(dict):
    """Counter whose merge is deterministic and JSON-friendly."""

    def inc(self, key, n=1):
        self[key] = self.get(key, 0) + n

    def merge(self, other):
        for k, v in other.items():
            self[k] = self.get(k, 0) + v
