"""Parallel seeded search: spawns fresh worker interpreters over blocks of run seeds, merges their reports, triages
violations against known findings, minimises and replays, writes evidence. Exit codes: 0 held, 1 violation, 2 harness."""
import json
import os
import subprocess
import sys
import tempfile
import time
from concurrent.futures import ThreadPoolExecutor

from sim import registry
from sim.kernel import cjson, sha, TRACE_FORMAT
from sim.minimise import failure_class

VERIF = os.path.dirname(os.path.dirname(os.path.abspath(__file__)))
PY = os.environ.get("DSW_VERIF_PYTHON", "/venv/bin/python")
WORKER = os.path.join(VERIF, "sim", "worker.py")
REPO = os.environ.get("DSW_VERIF_REPO", "/repo")

# fixed run counts per tier (so that two invocations with the same VERIF_SEED give the same evidence apart from wall_s)
RUNS = {
    "C04": {"quick": 6400, "thorough": 96000},
    "C06": {"quick": 12800, "thorough": 128000},
    "C07": {"quick": 3200, "thorough": 32000},
    "C08": {"quick": 9600, "thorough": 96000},
    "C09": {"quick": 9600, "thorough": 96000},
    "C10": {"quick": 12800, "thorough": 128000},
    "C17": {"quick": 1200, "thorough": 12000},
    "C18": {"quick": 2400, "thorough": 24000},
    "C19": {"quick": 1200, "thorough": 12000},
    "C20": {"quick": 1600, "thorough": 16000},
}


def worker_env(hashseed):
    env = dict(os.environ)
    env["PYTHONHASHSEED"] = str(hashseed)
    env["DSW_VERIF_SIM"] = "1"
    env["DSW_VERIF_REPO"] = REPO
    env["PYTHONPATH"] = VERIF
    env["PYTHONDONTWRITEBYTECODE"] = "1"
    env.pop("PYTHONSTARTUP", None)
    return env


def spawn(args, hashseed, timeout):
    """Run one worker to completion; returns (returncode, stderr tail)."""
    env = worker_env(hashseed)
    env["DSW_VERIF_WORKER_TIMEOUT"] = str(int(timeout))
    try:
        p = subprocess.run([PY, WORKER] + [str(a) for a in args], env=env, stdout=subprocess.PIPE,
                           stderr=subprocess.PIPE, timeout=timeout + 60, cwd=VERIF)
        return p.returncode, (p.stderr or b"").decode("utf-8", "replace")[-4000:]
    except subprocess.TimeoutExpired:
        return 124, "worker wall-clock timeout"


def load_known():
    path = os.path.join(VERIF, "known_findings.json")
    if not os.path.exists(path):
        return []
    with open(path) as f:
        return json.load(f).get("findings", [])


def _match_value(pred, value):
    if isinstance(pred, dict):
        if "min" in pred and not (value is not None and value >= pred["min"]):
            return False
        if "max" in pred and not (value is not None and value <= pred["max"]):
            return False
        if "in" in pred and value not in pred["in"]:
            return False
        if "contains" in pred and not (isinstance(value, str) and pred["contains"] in value):
            return False
        return True
    return pred == value


def match_known(violation, known):
    flat = dict(violation.get("detail", {}))
    flat["clause"] = violation["clause"]
    flat["what"] = violation["what"]
    for entry in known:
        if entry.get("status") != "open" or entry.get("property") != violation["property"]:
            continue
        if all(_match_value(pred, flat.get(key)) for key, pred in entry.get("match", {}).items()):
            return entry
    return None


def signature(v):
    d = v.get("detail", {})
    return "|".join(str(x) for x in (v["clause"], d.get("exc"), d.get("budget"), d.get("first_bad"),
                                     d.get("mismatch"), d.get("cmode"), d.get("fn"), d.get("kind")))


def run_blocks(prop, tier, first_seed, n_runs, workers, tmpdir, plain=False, hashseed_base=0, block=None):
    block = block or max(10, min(120, n_runs // (workers * 5) or 1))
    jobs = []
    i = 0
    while i < n_runs:
        c = min(block, n_runs - i)
        jobs.append((first_seed + i, c, len(jobs)))
        i += c
    per_block_timeout = float(os.environ.get("DSW_VERIF_BLOCK_TIMEOUT", "1500"))

    def one(job):
        first, count, index = job
        out = os.path.join(tmpdir, "block-%d.json" % index)
        args = ["block", prop, tier, first, count, out] + (["--plain"] if plain else [])
        rc, err = spawn(args, (hashseed_base + index) % 4 + 1 if hashseed_base >= 0 else 0, per_block_timeout)
        if rc != 0 or not os.path.exists(out):
            return {"error": "worker for seeds %d..%d exited %s: %s" % (first, first + count - 1, rc, err[-1500:])}
        with open(out) as f:
            rep = json.load(f)
        os.unlink(out)
        return rep

    with ThreadPoolExecutor(max_workers=workers) as pool:
        return list(pool.map(one, jobs))


def merge(reports):
    total = {"ops": {}, "faults": {}, "probes": {}, "lib_calls": 0, "vacuous": 0, "nonvacuous": 0, "max_util": {},
             "states": set(), "extra": {}}
    digests, violations, samples = {}, [], []
    sim_time = {"back_edges": 0, "row_reads": 0, "clock_span_s": 0.0}
    none_seeds, runs, trees = 0, 0, set()
    for rep in reports:
        st = rep["stats"]
        for table in ("ops", "faults", "probes", "extra"):
            for k, v in st.get(table, {}).items():
                total[table][k] = total[table].get(k, 0) + v
        for key in ("lib_calls", "vacuous", "nonvacuous"):
            total[key] += st.get(key, 0)
        for k, v in st.get("max_util", {}).items():
            total["max_util"][k] = max(total["max_util"].get(k, 0.0), v)
        total["states"].update(st.get("states", []))
        for entry in rep["digests"]:
            digests[entry[0]] = (entry[1], entry[2])
        for v in rep["violations"]:
            v["hashseed"] = rep.get("hashseed") or "1"
        violations.extend(rep["violations"])
        if len(samples) < 3:
            samples.extend(rep["samples"][:1])
        for k in ("back_edges", "row_reads"):
            sim_time[k] += rep["sim_time"][k]
        sim_time["clock_span_s"] = max(sim_time["clock_span_s"], rep["sim_time"]["clock_span_s"])
        none_seeds += rep.get("rng_none_seeds", 0)
        runs += rep["count"]
        trees.add(rep["tree"])
    violations.sort(key=lambda v: v["seed"])
    return total, digests, violations, samples, sim_time, none_seeds, runs, trees


def make_trace(prop, v, tier):
    return {"format": TRACE_FORMAT, "property": prop, "clause": v["violation"]["clause"],
            "seed": v["trace_seed"] if v.get("trace_seed") is not None else v["seed"], "run_seed": v["seed"],
            "tier": tier, "env": {"PYTHONHASHSEED": str(v.get("hashseed", "1")), "python": sys.version.split()[0]},
            "config": v.get("config"), "ops": v["ops"], "violation": v["violation"], "minimised": False,
            "original_ops": len(v["ops"])}


def minimise_and_confirm(prop, trace, tmpdir, tag, wall_s=420.0):
    """Minimise in a worker, then replay the result in another fresh worker. Returns (trace, confirmed, note)."""
    raw = os.path.join(tmpdir, "raw-%s.json" % tag)
    small = os.path.join(tmpdir, "min-%s.json" % tag)
    outp = os.path.join(tmpdir, "rep-%s.json" % tag)
    with open(raw, "w") as f:
        f.write(cjson(trace))
    hashseed = trace.get("env", {}).get("PYTHONHASHSEED", "1")   # set iteration order is part of the execution
    candidate = trace
    note = None
    if wall_s >= 20:
        os.environ["DSW_VERIF_MINIMISE_WALL"] = str(int(wall_s))
        rc, err = spawn(["minimise", raw, small], hashseed, wall_s + 600)
    else:
        rc, err = 1, "minimisation budget of this check is spent; trace reported unminimised"
    if rc == 0 and os.path.exists(small):
        with open(small) as f:
            candidate = json.load(f)
    else:
        note = "minimiser failed (%s): %s" % (rc, err[-300:])
    for attempt, tr in enumerate([candidate, trace]):
        path = os.path.join(tmpdir, "try-%s-%d.json" % (tag, attempt))
        with open(path, "w") as f:
            f.write(cjson(tr))
        rc, err = spawn(["replay", path, outp], hashseed, 600)
        if rc == 0 and os.path.exists(outp):
            with open(outp) as f:
                rep = json.load(f)
            if rep["violation"] is not None and failure_class(rep["violation"]) == failure_class(trace["violation"]):
                if attempt == 1:
                    note = (note or "") + " minimised trace did not reproduce in a fresh process; unminimised trace kept"
                return tr, True, note
    return trace, False, (note or "") + " trace did not reproduce in a fresh process"


def replay_file(path):
    """`check <id> --replay file`: re-execute in a fresh interpreter against the current tree."""
    with open(path) as f:
        trace = json.load(f)
    prop = trace["property"]
    with tempfile.TemporaryDirectory(prefix="dswsim-") as tmp:
        outp = os.path.join(tmp, "out.json")
        rc, err = spawn(["replay", os.path.abspath(path), outp], trace.get("env", {}).get("PYTHONHASHSEED", 1), 900)
        if rc != 0 or not os.path.exists(outp):
            sys.stderr.write("HARNESS-ERROR: replay worker exited %s\n%s\n" % (rc, err))
            return 2
        with open(outp) as f:
            rep = json.load(f)
    if rep["violation"] is not None:
        v = rep["violation"]
        print("replayed %d op(s): %s/%s: %s" % (rep["index"] + 1, v["property"], v["clause"], v["what"]))
        entry = match_known(v, load_known())
        if entry is not None:
            print("KNOWN-FINDING: property=%s %s" % (prop, entry["what"]))
            return 0
        print("VIOLATION property=%s replay=%s" % (prop, path))
        return 1
    print("replayed %d op(s): no violation on the current tree" % rep["index"])
    return 0


def check(prop, tier, seed=0, workers=None, n_runs=None, write_evidence=True):
    t0 = time.time()
    workers = workers or int(os.environ.get("DSW_VERIF_WORKERS", str(os.cpu_count() or 4)))
    n_runs = n_runs or RUNS[prop][tier]
    first_seed = seed * 10 ** 6
    known = load_known()
    replay_dir = os.path.join(VERIF, "replays", prop)
    os.makedirs(replay_dir, exist_ok=True)
    with tempfile.TemporaryDirectory(prefix="dswsim-") as tmp:
        reports = run_blocks(prop, tier, first_seed, n_runs, workers, tmp)
        errors = [r["error"] for r in reports if "error" in r]
        if errors:
            for e in errors[:5]:
                sys.stderr.write("HARNESS-ERROR: %s\n" % e)
            return 2
        total, digests, violations, samples, sim_time, none_seeds, runs, trees = merge(reports)
        search_wall = time.time() - t0
        # triage
        known_hits, new_by_sig = {}, {}
        for v in violations:
            entry = match_known(v["violation"], known)
            if entry is not None:
                known_hits.setdefault(entry["id"], [entry, 0])[1] += 1
            else:
                new_by_sig.setdefault(signature(v["violation"]), []).append(v)
        reported, seen_final = [], {}
        minimise_budget = float(os.environ.get("DSW_VERIF_MINIMISE_TOTAL", "600"))   # wall seconds per check
        for sig in sorted(new_by_sig)[:6]:
            group = sorted(new_by_sig[sig], key=lambda v: (len(cjson(v["ops"])), v["seed"]))
            v = group[0]
            trace = make_trace(prop, v, tier)
            trace["env"]["repo_tree"] = sorted(trees)[0] if trees else None
            t_min = time.time()
            final, confirmed, note = minimise_and_confirm(prop, trace, tmp, "%d" % v["seed"],
                                                          wall_s=min(300.0, minimise_budget))
            minimise_budget = max(0.0, minimise_budget - (time.time() - t_min))
            if not confirmed:
                sys.stderr.write("HARNESS-ERROR: violation at seed %d (%s) does not replay: %s\n" %
                                 (v["seed"], v["violation"]["what"], note))
                return 2
            if note:
                final["note"] = note.strip()
            # the minimised violation may now match a known finding (its structured detail is recomputed)
            entry = match_known(final["violation"], known)
            if entry is not None:
                known_hits.setdefault(entry["id"], [entry, 0])[1] += len(group)
                continue
            final_sig = signature(final["violation"])
            if final_sig in seen_final:
                seen_final[final_sig][2] += len(group)
                continue
            name = "auto-%s-seed%d-%s.json" % (tier, v["seed"], sha(sig)[:8])
            path = os.path.join(replay_dir, name)
            with open(path, "w") as f:
                json.dump(final, f, indent=1, sort_keys=True)
            reported.append([path, final, len(group)])
            seen_final[final_sig] = reported[-1]
    wall = time.time() - t0
    for ident in sorted(known_hits):
        entry, count = known_hits[ident]
        print("KNOWN-FINDING: property=%s %s [%s, %d run(s)]" % (prop, entry["what"], ident, count))
    for path, final, count in reported:
        v = final["violation"]
        print("violation %s/%s in %d run(s); minimised to %d op(s) from %d: %s" %
              (prop, v["clause"], count, len(final["ops"]), final["original_ops"], v["what"]))
        print("VIOLATION property=%s replay=%s" % (prop, path))
    if write_evidence:
        from sim import evidence
        evidence.write(prop, tier, seed, total, digests, violations, samples, sim_time, none_seeds, runs, trees, wall,
                       search_wall, workers, known_hits, reported, first_seed)
    nontrivial = len(set(d for d, nt in digests.values() if nt))
    print("%s %s: %d runs (seeds %d..%d), %d library calls, %d distinct non-trivial runs, %d violating run(s), "
          "%d new violation class(es), %.1fs" % (prop, tier, runs, first_seed, first_seed + runs - 1,
                                                total["lib_calls"], nontrivial, len(violations), len(reported), wall))
    return 1 if reported else 0
