"""Second, structurally different explorer for Engine B (thorough tier): a Hypothesis RuleBasedStateMachine drives the
same clients and the same object store. Hypothesis chooses which client acts next and the per-step seed, and shrinks
the sequence; whatever it finds is only believed once the explicit operation list replays in a fresh process (the
runner does that for every reported violation)."""
import hashlib
import random

from hypothesis import HealthCheck, Phase, seed as hseed, settings
from hypothesis import strategies as st
from hypothesis.stateful import RuleBasedStateMachine, initialize, rule, run_state_machine_as_test

from sim import workload_b as W
from sim.kernel import cjson

CLIENTS = ("coder", "designer", "converter", "analyst", "shuffler", "trimmer", "rng", "clock", "owner")


class Found(Exception):
    pass


def explore(prop, tier, run_seed, max_examples=30, steps=25):
    """Returns (sim_of_failing_example | None, stats_sims, digest, examples, steps)."""
    box = {"fail": None, "sims": [], "examples": 0, "steps": 0, "hash": hashlib.sha256()}
    weights = W.profile(prop, tier)["clients"]
    names = [c for c in CLIENTS if weights.get(c, 0) > 0]

    class Machine(RuleBasedStateMachine):
        def __init__(self):
            RuleBasedStateMachine.__init__(self)
            self.sim = None

        @initialize(s=st.integers(0, 2 ** 20))
        def start(self, s):
            self.sim = W.Sim(prop, tier, run_seed * 1000003 + s)
            box["examples"] += 1
            box["sims"].append(self.sim)
            W.seams.begin_run(W.stream(self.sim.seed, "rngseam"), "steady", None)
            self.sim.do({"op": "ENV", "columns": self.sim.columns})
            self.sim.setup()
            self.check()

        def check(self):
            if self.sim.ctx.violation is not None:
                box["fail"] = self.sim
                raise Found(str(self.sim.ctx.violation))

        @rule(client=st.sampled_from(names), r=st.integers(0, 2 ** 32 - 1))
        def step(self, client, r):
            sim = self.sim
            sim.rng = random.Random(r)
            op = getattr(sim, "client_" + client)()
            if op is None or any(v[0] == "ref" and v[1] is None for v in op.get("args", {}).values()):
                return
            box["steps"] += 1
            sim.do(op)
            self.check()

        def teardown(self):
            if self.sim is not None:
                box["hash"].update(cjson(self.sim.ops).encode())

    cfg = settings(max_examples=max_examples, stateful_step_count=steps, database=None, deadline=None,
                   report_multiple_bugs=False, suppress_health_check=list(HealthCheck), derandomize=False,
                   phases=[Phase.generate, Phase.shrink], print_blob=False)
    try:
        run_state_machine_as_test(hseed(run_seed)(Machine), settings=cfg)
    except Found:
        pass
    except Exception as e:  # Flaky etc.: keep the last failing example, the runner will try to replay it
        if box["fail"] is None:
            raise
    return box["fail"], box["sims"], box["hash"].hexdigest(), box["examples"], box["steps"]
