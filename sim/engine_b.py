"""Engine B - the shared-object call-history simulation (DESIGN section 5).

One object store of named arguments that all clients share by reference; every operation is an explicit dict. After
every CALL the oracles of the property being checked run: fresh-process equality, argument digests, stdout, module
globals (C20 / C18 / C19 interleaved reads), the arc-set reference model (C19), the certified capacity (C17).
"""
import copy
import hashlib
import math
import pickle

import numpy

from sim import models as M
from sim import graphs as G
from sim import stepclock as SC
from sim import seams
from sim import certify
from sim.kernel import Violation, HarnessError, sha, stream
from sim.zygote import ZYGOTE

PROPS = ("C17", "C18", "C19", "C20")


# ----------------------------------------------------------------------------------------------------------------
# content digests and normal forms
# ----------------------------------------------------------------------------------------------------------------
def _feed(h, obj):
    if isinstance(obj, numpy.ndarray):
        h.update(b"nd")
        h.update(obj.dtype.str.encode())
        h.update(repr(obj.shape).encode())
        h.update(numpy.ascontiguousarray(obj).tobytes())
    elif isinstance(obj, numpy.generic):
        h.update(("np:%s:%r" % (type(obj).__name__, obj.item())).encode())
    elif isinstance(obj, dict):
        h.update(b"dict{")
        items = [(_digest(k), k, v) for k, v in obj.items()]
        for dk, k, v in sorted(items, key=lambda t: t[0]):
            h.update(dk.encode())
            _feed(h, v)
        h.update(b"}")
    elif isinstance(obj, (list, tuple)):
        h.update(type(obj).__name__.encode() + b"[")
        for x in obj:
            _feed(h, x)
            h.update(b",")
        h.update(b"]")
    elif isinstance(obj, (str, int, float, bool, bytes)) or obj is None:
        h.update(("%s:%r" % (type(obj).__name__, obj)).encode())
    elif hasattr(obj, "__dict__"):
        h.update(("obj:%s" % type(obj).__name__).encode())
        _feed(h, dict(vars(obj)))
    else:
        h.update(("repr:%r" % (obj,)).encode())


def _digest(obj):
    h = hashlib.sha256()
    _feed(h, obj)
    return h.hexdigest()[:20]


digest = _digest


def normalise(out):
    """Comparable, picklable normal form of a step-clock Outcome (result or exception)."""
    if out.kind == "returned":
        return ("returned", _digest(out.value), _brief(out.value))
    if out.kind == "raised":
        import re
        return ("raised", out.exc_type, re.sub(r"0x[0-9a-fA-F]+", "0x?", out.exc_msg or ""))
    return ("budget", out.which, "")


def _brief(value):
    text = repr(value)
    return text if len(text) <= 200 else text[:200] + "..."


def _feed_state(h, obj, depth=0):
    """Shallow, cycle-safe digest of module-level state: recurses only into plain containers and dsw-defined objects."""
    if depth > 5:
        h.update(b"deep")
        return
    if isinstance(obj, numpy.ndarray):
        _feed(h, obj) if obj.dtype != object else h.update(("objarr%r" % (obj.shape,)).encode())
    elif isinstance(obj, (str, int, float, bool, bytes, numpy.generic)) or obj is None:
        _feed(h, obj)
    elif isinstance(obj, dict):
        h.update(("dict%d{" % len(obj)).encode())
        for key in sorted(obj, key=repr):
            h.update(repr(key).encode())
            _feed_state(h, obj[key], depth + 1)
        h.update(b"}")
    elif isinstance(obj, (list, tuple)):
        h.update(("%s%d[" % (type(obj).__name__, len(obj))).encode())
        for x in obj:
            _feed_state(h, x, depth + 1)
        h.update(b"]")
    elif isinstance(obj, (set, frozenset)):
        h.update(("set%d" % len(obj)).encode())
        for x in sorted(obj, key=repr):
            _feed_state(h, x, depth + 1)
    elif (getattr(type(obj), "__module__", "") or "").startswith("dsw") and hasattr(obj, "__dict__"):
        h.update(("obj:%s" % type(obj).__name__).encode())
        _feed_state(h, dict(vars(obj)), depth + 1)
    else:
        h.update(("other:%s" % type(obj).__name__).encode())


def module_state():
    """Digest of everything mutable hanging off the dsw modules (globals, function defaults / attributes / caches)."""
    import dsw
    import types
    h = hashlib.sha256()
    for module in (dsw, dsw.spiderweb, dsw.graphized, dsw.operation, dsw.biofilter):
        names = sorted(n for n in vars(module) if not (n.startswith("__") and n.endswith("__")))
        h.update(("%s:%s" % (module.__name__, ",".join(names))).encode())   # (e.g. __warningregistry__ is not state)
        for name in names:
            if name.startswith("__") and name.endswith("__"):
                continue
            obj = vars(module)[name]
            own = (getattr(obj, "__module__", "") or "").startswith("dsw")
            if isinstance(obj, types.ModuleType):
                h.update(("mod:%s" % obj.__name__).encode())
            elif isinstance(obj, types.FunctionType) and own:
                h.update(("fn:%s:%d" % (name, id(obj.__code__))).encode())
                _feed_state(h, obj.__defaults__)
                _feed_state(h, obj.__kwdefaults__)
                _feed_state(h, dict(obj.__dict__))
            elif isinstance(obj, type) and own:
                h.update(("cls:%s" % name).encode())
                for attr in sorted(vars(obj)):
                    val = vars(obj)[attr]
                    if isinstance(val, types.FunctionType):
                        _feed_state(h, val.__defaults__)
                        _feed_state(h, dict(val.__dict__))
                    elif not callable(val) and not attr.startswith("__"):
                        _feed_state(h, val)
            elif callable(obj):
                info = getattr(obj, "cache_info", None)
                wrapped = getattr(obj, "__wrapped__", None)
                if own or info is not None or (wrapped is not None and
                                               (getattr(wrapped, "__module__", "") or "").startswith("dsw")):
                    h.update(("callable:%s:%r" % (name, info() if info else None)).encode())
                else:
                    h.update(("ext:%s" % name).encode())
            else:
                _feed_state(h, obj)
    return h.hexdigest()[:20]


# ----------------------------------------------------------------------------------------------------------------
# the object store
# ----------------------------------------------------------------------------------------------------------------
class Store(object):
    def __init__(self):
        self.objs, self.kinds, self.meta = {}, {}, {}

    def put(self, name, kind, obj, **meta):
        self.objs[name], self.kinds[name], self.meta[name] = obj, kind, meta

    def digests(self):
        return {name: _digest(obj) for name, obj in self.objs.items()}

    def names(self, kind, pred=None):
        return [n for n in sorted(self.objs) if self.kinds[n] == kind and (pred is None or pred(n))]


def lm_from_rows(rows, numpy_keys=False, order_seed=None):
    """Latter map of a graph. order_seed: successor lists (and key insertion order) in a seeded non-ascending order -
    a latter map is a user-supplied dict of lists, nothing says its lists are sorted."""
    import random as _random
    lm = {}
    vertices = list(range(len(rows)))
    rng = _random.Random(order_seed) if order_seed is not None else None
    if rng is not None:
        rng.shuffle(vertices)
    for v in vertices:
        succ = [w for w in rows[v] if w >= 0]
        if succ:
            if rng is not None:
                rng.shuffle(succ)
            lm[numpy.int64(v) if numpy_keys else v] = succ
    return lm


def adj_from_rows(rows):
    n = len(rows)
    a = numpy.zeros((n, n), dtype=int)
    for v in range(n):
        for w in rows[v]:
            if w >= 0:
                a[v, w] = 1
    return a


def make_accessor(rows, layout=None):
    """The accessor as users may hold it: C-contiguous (default), Fortran-ordered, or a non-contiguous view."""
    acc = numpy.array(rows, dtype=int)
    if layout == "F":
        return numpy.asfortranarray(acc)
    if layout == "view":
        wide = -numpy.ones((len(rows), 8), dtype=int)
        wide[:, ::2] = acc
        return wide[:, ::2]
    return acc


def as_lm_type(lm, lm_type=None):
    if lm_type == "defaultdict":
        import collections
        d = collections.defaultdict(list)
        d.update(lm)
        return d
    return lm


def put_graph(store, name, k, rows, with_adj=True, order_seed=None, layout=None, lm_type=None):
    store.put(name + ".acc", "acc", make_accessor(rows, layout), k=k, graph=name)
    store.put(name + ".lm", "lm", as_lm_type(lm_from_rows(rows, order_seed=order_seed), lm_type), k=k, graph=name)
    if with_adj and k <= 3:
        store.put(name + ".adj", "adj", adj_from_rows(rows), k=k, graph=name)


class World(object):
    def __init__(self, prop):
        self.prop = prop
        self.store = Store()
        self.dsw = seams.install()
        self.tables_seen = {}      # (k, seed) -> digest of the first table seen in this run
        self.pairs = {}            # pair name -> reference arc-set model
        self.owned = set()         # names of objects the library handed back (their owner may edit them in place)
        self.prev_fn = None


class Stats(object):
    def __init__(self):
        self.ops, self.faults, self.probes = {}, {}, {}
        self.states = set()
        self.lib_calls = 0
        self.vacuous = 0
        self.nonvacuous = 0
        self.max_util = {}
        self.fault_in_op = 0
        self.extra = {}

    def inc(self, table, key, n=1):
        d = getattr(self, table)
        d[key] = d.get(key, 0) + n


class Ctx(object):
    def __init__(self, prop, stats, fresh=True):
        self.prop, self.stats, self.violation, self.fresh = prop, stats, None, fresh

    def fail(self, clause, what, **detail):
        if self.violation is None:
            self.violation = Violation(self.prop, clause, what, detail)


# ----------------------------------------------------------------------------------------------------------------
# API table
# ----------------------------------------------------------------------------------------------------------------
VERBOSE_FNS = {"encode", "decode", "find_vertices", "connect_valid_graph", "connect_coding_graph",
               "accessor_to_latter_map", "latter_map_to_accessor", "accessor_to_adjacency_matrix",
               "adjacency_matrix_to_accessor", "remove_useless", "get_complete_accessor", "approximate_capacity",
               "calculate_intersection_score", "create_random_shuffles", "remove_nasty_arc", "bit_to_number"}

BUDGET = {"encode": 400000, "decode": 400000, "repair_dna": 1500000, "path_matching": 200000,
          "calculate_intersection_score": 6000000, "remove_nasty_arc": 6000000, "approximate_capacity": 3000000}
DEFAULT_BUDGET = 2000000


def resolve_fn(dsw, name):
    if name == "filter.valid":
        return None
    return getattr(dsw, name)


def resolve_args(op, store):
    kwargs, refs = {}, {}
    for param, (mode, value) in sorted(op["args"].items()):
        if mode == "ref":
            if value not in store.objs:
                return None, None
            kwargs[param] = store.objs[value]
            refs[param] = value
        else:
            kwargs[param] = value
    for param in op.get("np_args", []):
        if isinstance(kwargs.get(param), int) and not isinstance(kwargs.get(param), bool):
            kwargs[param] = numpy.int64(kwargs[param])
    return kwargs, refs


def evaluate_reference(request):
    """Runs in a fresh process (grandchild of the worker, child of the pristine zygote)."""
    import dsw
    import os
    for var in ("COLUMNS", "LINES"):
        os.environ.pop(var, None)          # the reference runs in a default environment
    kwargs = pickle.loads(request["kwargs"])
    seams.begin_run(stream(request.get("entropy", 0), "reference"), "steady", None)
    if request.get("rng_seed") is not None:
        numpy.random.seed(request["rng_seed"])
    if request["fn"] == "filter.valid":
        flt = kwargs.pop("self")
        fn = flt.valid
    else:
        fn = getattr(dsw, request["fn"])
    if request["fn"] in VERBOSE_FNS:
        kwargs["verbose"] = False
    with seams.Captured() as cap:
        out = SC.call(fn, kwargs, jump_budget=request["budget"])
    return {"norm": normalise(out), "stdout": len(cap.text)}


def ensure_zygote():
    if ZYGOTE.pid is None:
        ZYGOTE.start(evaluate_reference)


# ----------------------------------------------------------------------------------------------------------------
# operations
# ----------------------------------------------------------------------------------------------------------------
def execute(op, world, ctx):
    name = op["op"]
    ctx.stats.inc("ops", name if name != "CALL" else "CALL:" + op["fn"])
    if name == "NEW":
        return op_new(op, world, ctx)
    if name == "CALL":
        return op_call(op, world, ctx)
    if name == "RNG":
        return op_rng(op, world, ctx)
    if name == "CLOCK":
        seams.CLOCKSEAM.reset(op["behaviour"], stream(op.get("cseed", 0), "clock"))
        ctx.stats.inc("faults", "CLOCK:" + op["behaviour"])
        return {"out": {"kind": "sim"}, "res": None}
    if name == "DIGITMAP":
        return op_digitmap(op, world, ctx)
    if name == "OWNEDIT":
        return op_ownedit(op, world, ctx)
    if name == "ENV":
        # environment seam: the terminal geometry a progress display might look at (runs are forked children: no leakage)
        import os
        for var in ("COLUMNS", "LINES"):
            os.environ.pop(var, None)
        if op.get("columns") is not None:
            os.environ["COLUMNS"], os.environ["LINES"] = op["columns"], "24"
        ctx.stats.inc("faults", "ENV:columns=%s" % op.get("columns"))
        return {"out": {"kind": "sim"}, "res": None}
    raise HarnessError("unknown op %r" % name)


def op_new(op, world, ctx):
    store, kind, name = world.store, op["kind"], op["name"]
    if kind == "graph":
        rows = G.arcs_to_rows(op["arcs"], op["k"])
        put_graph(store, name, op["k"], rows, order_seed=op.get("lm_order"), layout=op.get("layout"),
                  lm_type=op.get("lm_type"))
    elif kind == "mask":
        arr = numpy.array([c == "1" for c in op["bits"]], dtype=bool)
        store.put(name, "mask", arr.astype(int) if op.get("dtype") == "int" else arr, k=op["k"])
    elif kind == "table":
        store.put(name, "table", numpy.array([[int(c) for c in op["digits"][4 * v: 4 * v + 4]]
                                              for v in range(4 ** op["k"])],
                                             dtype=getattr(numpy, op["dtype"]) if op.get("dtype") else int), k=op["k"])
    elif kind == "filter":
        cfg = op["cfg"]
        store.put(name, "filter", world.dsw.LocalBioFilter(observed_length=cfg["k"], max_homopolymer_runs=cfg["runs"],
                                                           gc_range=cfg["gc"], undesired_motifs=cfg["motifs"]),
                  k=cfg["k"])
    elif kind == "bits":
        store.put(name, "bits", numpy.array([int(c) for c in op["bits"]], dtype=int))
    elif kind == "xgraph":
        # a tiny graph (one arc, a loop, a two-cycle, ...) held by the constructor client only (kinds no one else picks)
        rows = G.arcs_to_rows(op["arcs"], op["k"])
        store.put(name + ".acc", "xacc", make_accessor(rows), k=op["k"], graph=name)
        store.put(name + ".lm", "xlm", lm_from_rows(rows), k=op["k"], graph=name)
    elif kind in ("motifs", "gcr"):
        # the caller's own list of undesired motifs / [low, high] G+C bounds, handed to filter constructors by reference
        store.put(name, kind, list(op["items"]), k=op["k"])
    elif kind == "strand":
        store.put(name, "strand", op["s"])
    elif kind == "pair-adopt":
        # the trimmer takes over an object the library handed back earlier (no copy): either a latter map (the matching
        # accessor is built by the simulator) or an accessor (the matching latter map is built by the simulator). The
        # object is renamed, not aliased, so any *other* store object that changes later was reached through the library.
        src = op["from"]
        obj = store.objs.get(src)
        k = store.meta.get(src, {}).get("k")
        if obj is None or k is None or k > (4 if world.prop == "C19" else 3) or store.meta[src].get("pair"):
            return {"out": {"kind": "skipped"}, "res": None}
        try:
            if store.kinds[src] == "lm":
                rows = [[-1, -1, -1, -1] for _ in range(4 ** k)]
                for v, succ in obj.items():
                    for w in succ:
                        rows[int(v)][int(w) % 4] = int(w)
                acc, lm = numpy.array(rows, dtype=int), obj
            else:
                rows = obj.tolist()
                acc, lm = obj, lm_from_rows(rows, order_seed=op.get("lm_order"))
            ok = M.check_rows_shape(rows, k) and any(w >= 0 for r in rows for w in r)
        except Exception:
            ok = False
        if not ok:
            return {"out": {"kind": "skipped"}, "res": None}
        for table in (store.objs, store.kinds, store.meta):
            table.pop(src, None)
        world.owned.discard(src)
        store.put(name + ".acc", "acc", acc, k=k, graph=name, pair=name)
        store.put(name + ".lm", "lm", lm, k=k, graph=name, pair=name)
        world.pairs[name] = {"arcs": set(M.arcs(rows)), "k": k, "removed": 0, "dead": False}
        ctx.stats.inc("probes", "pair-adopted-" + ("lm" if lm is obj else "acc"))
    elif kind == "pair":
        src = op["from"]
        if src + ".acc" not in store.objs:
            return {"out": {"kind": "skipped"}, "res": None}
        acc = store.objs[src + ".acc"]
        k = store.meta[src + ".acc"]["k"]
        rows = acc.tolist()
        store.put(name + ".acc", "acc", make_accessor(rows, op.get("layout")), k=k, graph=name, pair=name)
        store.put(name + ".lm", "lm", as_lm_type(lm_from_rows(rows, numpy_keys=op.get("numpy_keys", False),
                                                              order_seed=op.get("lm_order")), op.get("lm_type")),
                  k=k, graph=name, pair=name)
        world.pairs[name] = {"arcs": set(M.arcs(rows)), "k": k, "removed": 0, "dead": False}
    else:
        raise HarnessError("NEW kind %r" % kind)
    return {"out": {"kind": "sim"}, "res": None}


def op_ownedit(op, world, ctx):
    """The owner of an object the library handed back edits it in place (it is theirs). Nothing is asserted here; later
    calls must still equal their fresh-process evaluation, i.e. the library must not have kept a reference."""
    import random as _random
    store, name = world.store, op["name"]
    obj = store.objs.get(name)
    rng = _random.Random(op.get("how", 0))
    kind = store.kinds.get(name)
    done = False
    if isinstance(obj, numpy.ndarray) and obj.size and obj.flags.writeable:
        if kind == "table" and obj.ndim == 2 and obj.shape[1] == 4:
            r = rng.randrange(obj.shape[0])
            i, j = rng.sample(range(4), 2)
            obj[r, i], obj[r, j] = obj[r, j], obj[r, i]          # still a permutation table
            done = True
        elif kind == "bits" and obj.ndim == 1:
            i = rng.randrange(len(obj))
            obj[i] = 1 - obj[i]
            done = True
        elif kind == "mask" and obj.ndim == 1:
            i = rng.randrange(len(obj))
            obj[i] = not obj[i] if obj.dtype == bool else 1 - obj[i]
            done = True
    ctx.stats.inc("faults", "OWNEDIT:" + str(kind) if done else "OWNEDIT:skipped")
    return {"out": {"kind": "sim", "edited": done}, "res": _digest(obj) if done else None}


def op_rng(op, world, ctx):
    """rng-noise adversary: what any other user of numpy.random in the same process does."""
    if op["action"] == "seed":
        numpy.random.seed(op["value"])
    elif op["action"] == "draw":
        numpy.random.random(size=op["n"])
    elif op["action"] == "shuffle":
        numpy.random.shuffle(numpy.arange(op["n"]))
    else:
        raise HarnessError("RNG action %r" % op["action"])
    ctx.stats.inc("faults", "RNG:" + op["action"])
    return {"out": {"kind": "sim"}, "res": seams.RNG.state_digest()}


def store_results(op, world, out):
    """Put what the API handed back into the store so later calls take it as an argument (results may alias inputs)."""
    mapping = op.get("store")
    if not mapping or out.kind != "returned":
        return
    store, value = world.store, out.value
    for key, spec in sorted(mapping.items()):
        try:
            item = value if key == "" else value[int(key)]
        except Exception:
            continue
        kind, name = spec["kind"], spec["name"]
        if spec.get("k", 0) and spec["k"] > 3:
            continue          # large results are not kept (the call itself was the point)
        before_names = set(store.objs)
        if kind == "graph":
            if isinstance(item, numpy.ndarray) and item.ndim == 2 and item.shape[1] == 4:
                k = spec["k"]
                if item.shape[0] == 4 ** k and M.check_rows_shape(numpy.asarray(item).tolist(), k):
                    store.put(name + ".acc", "acc", item, k=k, graph=name)          # the very object handed back
                    store.put(name + ".lm", "lm", lm_from_rows(item.tolist()), k=k, graph=name)
        elif kind == "mask":
            if isinstance(item, numpy.ndarray) and item.ndim == 1 and item.dtype != object \
                    and len(item) == 4 ** spec["k"]:
                store.put(name, "mask", item, k=spec["k"])
        elif kind == "lm":
            if isinstance(item, dict):
                store.put(name, "lm", item, k=spec["k"], graph=None)
        elif kind == "table":
            if isinstance(item, numpy.ndarray):
                store.put(name, "table", item, k=spec["k"])
        elif kind == "strand":
            if isinstance(item, str):
                store.put(name, "strand", item)
        elif kind == "bits":
            if isinstance(item, numpy.ndarray):
                store.put(name, "bits", item)
        elif kind == "cfilter":
            if hasattr(item, "valid"):
                store.put(name, "cfilter", item, k=spec["k"])
        for added in set(store.objs) - before_names:
            if not added.endswith(".lm") or kind == "lm":
                world.owned.add(added)


def op_call(op, world, ctx):
    dsw, store, st, fn_name = world.dsw, world.store, ctx.stats, op["fn"]
    kwargs, refs = resolve_args(op, store)
    if kwargs is None:
        return {"out": {"kind": "skipped"}, "res": None}
    verbose = op.get("verbose")
    mutating = fn_name == "remove_nasty_arc"
    touches_pair = [n for n in refs.values() if store.meta.get(n, {}).get("pair")]
    budget = BUDGET.get(fn_name, DEFAULT_BUDGET)
    # arguments are pickled *before* the call: the fresh process must see the values the call was given
    try:
        blob = pickle.dumps(kwargs, protocol=4)
    except Exception as e:
        raise HarnessError("cannot pickle arguments of %s: %s" % (fn_name, e))
    before = store.digests()
    globals_before = module_state()
    pair_name = store.meta[refs["accessor"]].get("pair") if mutating and "accessor" in refs else None
    aliases = set()
    if mutating:
        # everything that *is* one of the two in-place arguments under another name, or shares their storage (a result
        # that an earlier call handed back as an alias of its own argument, or with the argument's inner lists): editing
        # it is the documented in-place behaviour of remove_nasty_arc on its arguments. Taken before the call, while
        # the shared lists are all still there.
        acc_arg, lm_arg = kwargs.get("accessor"), kwargs.get("latter_map")
        inner = set(id(v) for v in lm_arg.values()) if isinstance(lm_arg, dict) else set()
        for n, obj in store.objs.items():
            if obj is acc_arg or obj is lm_arg:
                aliases.add(n)
            elif isinstance(obj, dict) and inner and any(id(v) in inner for v in obj.values()):
                aliases.add(n)
            elif isinstance(obj, numpy.ndarray) and isinstance(acc_arg, numpy.ndarray) and \
                    numpy.shares_memory(obj, acc_arg):
                aliases.add(n)
    pre = c19_before(op, world, ctx, kwargs, pair_name) if mutating else None
    if op.get("rng_seed") is not None:
        numpy.random.seed(op["rng_seed"])
    rng_before = seams.RNG.state_digest()
    if fn_name == "filter.valid":
        call_kwargs = dict(kwargs)
        fn = call_kwargs.pop("self").valid
    else:
        fn = getattr(dsw, fn_name)
        call_kwargs = dict(kwargs)
        if verbose is not None and fn_name in VERBOSE_FNS:
            call_kwargs["verbose"] = verbose
    st.lib_calls += 1
    with seams.Captured() as cap:
        out = SC.call(fn, call_kwargs, jump_budget=budget)
    live = normalise(out)
    after = store.digests()
    globals_after = module_state()
    rng_after = seams.RNG.state_digest()
    rec = {"out": out.brief(), "res": live[1] if live[0] == "returned" else None, "stdout": len(cap.text),
           "rng": [rng_before, rng_after]}
    # ---- fresh-process reference -------------------------------------------------------------------------------
    reference = None
    randomised = (fn_name == "approximate_capacity" and kwargs.get("repeats", 1) > 1 and op.get("rng_seed") is None) \
        or (fn_name == "create_random_shuffles" and kwargs.get("random_seed") is None)
    want_reference = ctx.fresh and not randomised and (
        ctx.prop == "C20" or (ctx.prop == "C18" and fn_name == "create_random_shuffles") or
        (ctx.prop == "C18" and fn_name in ("encode", "decode") and kwargs.get("shuffles") is not None) or
        (ctx.prop == "C19" and touches_pair and not mutating))
    if want_reference:
        ensure_zygote()
        reference = ZYGOTE.evaluate({"fn": fn_name, "kwargs": blob, "rng_seed": op.get("rng_seed"), "budget": budget})
        st.inc("extra", "fresh_process_evaluations")
    changed = sorted(n for n in before if before[n] != after.get(n))
    exempt = set()
    if mutating:
        exempt = set(n for p, n in refs.items() if p in ("accessor", "latter_map"))
        exempt |= aliases
        if len(exempt) > 2:
            st.inc("probes", "c20:result-aliases-argument")
    det = {"fn": fn_name, "verbose": bool(verbose), "prev_fn": world.prev_fn,
           "shared": sorted(set(store.kinds[n] for n in refs.values()))}
    # ---- oracles -----------------------------------------------------------------------------------------------
    if ctx.prop == "C20":
        oracle_c20(op, world, ctx, out, live, reference, changed, exempt, cap.text, globals_before, globals_after,
                   det, refs)
    elif ctx.prop == "C18" and fn_name == "create_random_shuffles":
        oracle_c18(op, world, ctx, out, live, reference, changed, cap.text, globals_before, globals_after, det,
                   kwargs, rng_before, rng_after)
    elif ctx.prop == "C18" and fn_name in ("encode", "decode") and kwargs.get("shuffles") is not None:
        oracle_c18_walks(op, world, ctx, out, live, reference, det, kwargs)
    elif ctx.prop == "C19":
        if mutating:
            oracle_c19(op, world, ctx, out, pre, kwargs, pair_name, det)
        elif touches_pair:
            st.nonvacuous += 1
            st.inc("probes", "c19:interleaved-" + fn_name)
            bad = [n for n in changed if n in touches_pair]
            if bad:
                ctx.fail("interleaved-read-mutates-pair", "%s changed %s of the pair being trimmed" % (fn_name, bad),
                         **det)
            elif reference is not None and reference["norm"][:2] != live[:2]:
                ctx.fail("interleaved-read-differs", "%s on the pair being trimmed returned %s, a fresh process %s" %
                         (fn_name, live[2] or live[1], reference["norm"][2] or reference["norm"][1]), **det)
    elif ctx.prop == "C17" and fn_name == "approximate_capacity":
        oracle_c17(op, world, ctx, out, kwargs, det)
    store_results(op, world, out)
    if mutating and pair_name in world.pairs and out.kind == "returned" and ctx.prop != "C19":
        # keep the reference arc set of the pair current in non-C19 runs too (it is only bookkeeping there)
        model = world.pairs[pair_name]
        acc = store.objs.get(pair_name + ".acc")
        if isinstance(acc, numpy.ndarray):
            model["arcs"] = set(M.arcs(acc.tolist()))
    world.prev_fn = fn_name
    return rec


# ----------------------------------------------------------------------------------------------------------------
# C20
# ----------------------------------------------------------------------------------------------------------------
def oracle_c20(op, world, ctx, out, live, reference, changed, exempt, stdout, g0, g1, det, refs):
    st, fn_name = ctx.stats, op["fn"]
    st.nonvacuous += 1
    for kind in det["shared"]:
        st.states.add("%s>%s/%s" % (det["prev_fn"], fn_name, kind))
    st.inc("probes", "c20:verbose-on" if det["verbose"] else "c20:verbose-off")
    st.inc("probes", "c20:outcome-" + live[0] + (":" + live[1] if live[0] == "raised" else ""))
    bad = [n for n in changed if n not in exempt]
    if bad:
        return ctx.fail("argument-modified", "%s modified %s (kind %s) in place" %
                        (fn_name, bad[0], world.store.kinds.get(bad[0])), modified_kind=world.store.kinds.get(bad[0]),
                        is_argument=bad[0] in refs.values(), **det)
    # Not violations of C20 as stated (a correct cache, or a message printed by a quiet call, leaves every result and
    # argument as promised): reach probes only. Harm done by hidden state shows up as a result that differs from the
    # fresh process.
    if g0 != g1:
        st.inc("probes", "c20:module-state-changed")
    if not det["verbose"] and stdout:
        st.inc("probes", "c20:quiet-call-printed")
    if reference is not None:
        ref = reference["norm"]
        if ref[:2] != live[:2]:
            clause = "verbose-changes-result" if det["verbose"] and live[0] != "raised" else \
                "verbose-raises" if det["verbose"] and ref[0] != "raised" else "result-differs-from-fresh-process"
            if not det["verbose"]:
                clause = "result-differs-from-fresh-process"
            return ctx.fail(clause, "%s%s returned %s here but %s in a fresh process on equal arguments" %
                            (fn_name, " (verbose)" if det["verbose"] else "",
                             (live[2] or live[1]) if live[0] == "returned" else "%s: %s" % (live[1], live[2]),
                             (ref[2] or ref[1]) if ref[0] == "returned" else "%s: %s" % (ref[1], ref[2])),
                            live=live[0], fresh=ref[0], exc=live[1] if live[0] == "raised" else None, **det)
        if ref[0] == "raised" and ref[2] != live[2]:
            return ctx.fail("result-differs-from-fresh-process", "%s raised %s with message %r here but %r in a fresh "
                            "process" % (fn_name, live[1], live[2], ref[2]), **det)
        st.inc("probes", "c20:fresh-equal")
    if det["verbose"] and stdout:
        st.inc("probes", "c20:verbose-printed")


# ----------------------------------------------------------------------------------------------------------------
# C18
# ----------------------------------------------------------------------------------------------------------------
DOC_TABLE_2021 = [[3, 2, 1, 0], [2, 3, 1, 0], [3, 1, 0, 2], [0, 3, 1, 2], [3, 2, 0, 1], [1, 0, 3, 2], [0, 3, 1, 2],
                  [2, 0, 1, 3], [2, 3, 0, 1], [1, 0, 3, 2], [2, 0, 1, 3], [0, 1, 3, 2], [2, 3, 1, 0], [2, 0, 3, 1],
                  [0, 1, 3, 2], [0, 3, 2, 1]]


def oracle_c18(op, world, ctx, out, live, reference, changed, stdout, g0, g1, det, kwargs, rng_before, rng_after):
    st = ctx.stats
    k, seed = kwargs["observed_length"], kwargs.get("random_seed")
    st.nonvacuous += 1
    seed_class = "none" if seed is None else ("doc" if seed == 2021 else "edge" if seed in (0, 1, 2 ** 32 - 1)
                                              else "random")
    det = dict(det, k=k, seed_class=seed_class)
    if out.kind != "returned":
        return ctx.fail("table-shape", "create_random_shuffles(%d, %r) did not return: %s %s" %
                        (k, seed, out.exc_type or out.which, out.exc_msg or ""), **det)
    table = out.value
    if not isinstance(table, numpy.ndarray) or table.shape != (4 ** k, 4):
        return ctx.fail("table-shape", "table has shape %r, expected (%d, 4)" %
                        (getattr(table, "shape", None), 4 ** k), **det)
    rows = table.tolist()
    for v, row in enumerate(rows):
        if sorted(row) != [0, 1, 2, 3]:
            return ctx.fail("rows-are-permutations", "row %d of the table is %r, not a permutation of 0..3" % (v, row),
                            **det)
    if seed is not None:
        key = (k, seed)
        d = _digest(table)
        if key in world.tables_seen and world.tables_seen[key] != d:
            return ctx.fail("same-seed-same-table", "create_random_shuffles(%d, %d) returned a different table than "
                            "earlier in the same run" % (k, seed), **det)
        if key in world.tables_seen:
            st.inc("probes", "c18:repeat-of-earlier-table")
        world.tables_seen.setdefault(key, d)
        if reference is not None:
            if reference["norm"][:2] != live[:2]:
                return ctx.fail("same-seed-same-table", "create_random_shuffles(%d, %d) depends on what happened "
                                "before: here %s, in a fresh process %s" % (k, seed, live[2], reference["norm"][2]),
                                **det)
            st.inc("probes", "c18:fresh-equal")
        if key == (2, 2021):
            # the docstring's table: a fact about the generator in use, not part of C18 as worded - probe only
            st.inc("probes", "c18:doc-table-" + ("equal" if rows == DOC_TABLE_2021 else "different"))
    else:
        st.inc("probes", "c18:seed-none")
    if changed:
        return ctx.fail("no-other-effect", "create_random_shuffles changed store object %s" % changed[0], **det)
    if g0 != g1:
        return ctx.fail("no-other-effect", "create_random_shuffles changed dsw module state", **det)
    if not det["verbose"] and stdout:
        return ctx.fail("no-other-effect", "create_random_shuffles printed with progress output off", **det)
    st.states.add("k%d/%s/%s/%s" % (k, seed_class, "after-" + str(det["prev_fn"]), "verbose" if det["verbose"] else "quiet"))


def _is_permutation_table(table, k):
    try:
        rows = numpy.asarray(table).tolist()
        return len(rows) == 4 ** k and all(sorted(r) == [0, 1, 2, 3] for r in rows)
    except Exception:
        return False


def oracle_c18_walks(op, world, ctx, out, live, reference, det, kwargs):
    """C18, last clause, on the calls of the history that use a table: "shuffling never changes which strands are
    walks". encode with a permutation table must emit a walk of the graph as it is now; normal-mode decode with a
    table must accept exactly the walks (whose check matches); and the call must not depend on what happened to the
    graph object earlier (fresh-process equality), e.g. through arcs removed in place by remove_nasty_arc."""
    st, fn_name = ctx.stats, op["fn"]
    acc = kwargs.get("accessor")
    if not isinstance(acc, numpy.ndarray) or acc.ndim != 2 or acc.shape[1] != 4:
        return
    rows = acc.tolist()
    k = int(round(math.log(len(rows), 4)))
    start = kwargs.get("start_index", 0)
    if len(rows) != 4 ** k or not M.check_rows_shape(rows, k) or not _is_permutation_table(kwargs["shuffles"], k) \
            or not isinstance(start, int) or not 0 <= start < 4 ** k:
        st.vacuous += 1
        return
    det = dict(det, k=k, fast=bool(kwargs.get("is_faster")))
    if fn_name == "encode":
        fast_blocked = bool(kwargs.get("is_faster")) and M.degree_multiset(rows)[3] > 0   # fast mode has no radix 3
        if not fast_blocked and start in M.safe_starts(rows) and out.kind != "returned":
            # from this start vertex every walk stays inside the graph and reaches a branching vertex, so encoding
            # terminates whatever arcs the digits select: a table that is a permutation per row cannot change that
            return ctx.fail("shuffles-keep-walks", "encode with a permutation table failed (%s %s) from a start vertex "
                            "from which every message can be encoded" % (live[1], (live[2] or "")[:80]), **det)
        if out.kind != "returned":
            st.vacuous += 1
        else:
            st.nonvacuous += 1
            value = out.value
            strand = value[0] if isinstance(value, tuple) else value
            if isinstance(strand, str):
                wk = M.walk(rows, start, strand)
                st.inc("probes", "c18:encode-with-table")
                if not wk.is_walk:
                    return ctx.fail("shuffles-keep-walks", "encode with a permutation table emitted %r, which is not a "
                                    "walk of the graph (first non-arc at %d)" % (strand[:40], wk.first_bad), **det)
    else:
        read = kwargs.get("dna_sequence")
        if not isinstance(read, str) or kwargs.get("is_faster"):
            st.vacuous += 1
        else:
            st.nonvacuous += 1
            wk = M.walk(rows, start, read)
            check = kwargs.get("vt_check")
            cok = check is None or (M.is_acgt(read) and len(check) >= 1 and M.vt(read, len(check)) == check)
            st.inc("probes", "c18:decode-with-table-%s" % ("walk" if wk.is_walk else "nonwalk"))
            if out.kind == "returned" and not (wk.is_walk and cok):
                return ctx.fail("shuffles-keep-walks", "decode with a permutation table accepted %r, which is not a "
                                "walk of the graph" % read[:40], **det)
            if out.kind == "raised" and wk.is_walk and cok:
                return ctx.fail("shuffles-keep-walks", "decode with a permutation table rejected the walk %r: %s: %s"
                                % (read[:40], out.exc_type, out.exc_msg), **det)
    if reference is not None and reference["norm"][:2] != live[:2]:
        return ctx.fail("shuffles-keep-walks", "%s with a table returned %s here but %s in a fresh process on equal "
                        "arguments" % (fn_name, live[2] or live[1], reference["norm"][2] or reference["norm"][1]),
                        **det)


def op_digitmap(op, world, ctx):
    """C18 clause (iv): all 24 permutations x 15 non-empty live-arc patterns: the induced digit -> arc map is a
    bijection (finite enumeration, run once per block)."""
    import itertools
    dsw, st = world.dsw, ctx.stats
    cases = 0
    for perm in itertools.permutations(range(4)):
        for pattern in range(1, 16):
            live = [j for j in range(4) if pattern >> j & 1]
            m = len(live)
            # order-2 graph, complete except at the start vertex AC (index 1), none of whose successors is AC itself
            rows = M.complete_rows(2)
            start = 1
            rows[start] = [w if j in live else -1 for j, w in enumerate(M.latters(start, 2))]
            table = numpy.array([list(perm) if v == start else [0, 1, 2, 3] for v in range(16)], dtype=int)
            acc = numpy.array(rows, dtype=int)
            firsts = []
            for d in range(m):
                value = d + m if m > 1 else 1
                bits = numpy.array([int(c) for c in bin(value)[2:]], dtype=int)
                out = SC.call(dsw.encode, dict(binary_message=bits, accessor=acc, start_index=start, shuffles=table),
                              jump_budget=100000)
                st.lib_calls += 1
                if out.kind != "returned" or not isinstance(out.value, str) or not out.value:
                    ctx.fail("digit-map-bijective", "encode failed on the order-1 test graph (perm %r, arcs %r, "
                             "digit %d)" % (perm, live, d), perm=list(perm), pattern=pattern)
                    return {"out": {"kind": "violation"}, "res": None}
                firsts.append(M.NT.index(out.value[0]))
            cases += 1
            if sorted(firsts) != live:
                ctx.fail("digit-map-bijective", "table row %r at a vertex with live arcs %r maps digits 0..%d to arcs "
                         "%r: not a bijection onto the live arcs" % (list(perm), live, m - 1, firsts),
                         perm=list(perm), pattern=pattern)
                return {"out": {"kind": "violation"}, "res": None}
            if m in (2, 4):
                firsts = []
                for d in range(m):
                    bits = numpy.array([d] if m == 2 else [d // 2, d % 2], dtype=int)
                    out = SC.call(dsw.encode, dict(binary_message=bits, accessor=acc, start_index=start,
                                                   shuffles=table, is_faster=True), jump_budget=100000)
                    st.lib_calls += 1
                    if out.kind != "returned" or not out.value:
                        ctx.fail("digit-map-bijective", "fast encode failed on the order-1 test graph",
                                 perm=list(perm), pattern=pattern)
                        return {"out": {"kind": "violation"}, "res": None}
                    firsts.append(M.NT.index(out.value[0]))
                if sorted(firsts) != live:
                    ctx.fail("digit-map-bijective", "fast mode: table row %r, live arcs %r -> arcs %r" %
                             (list(perm), live, firsts), perm=list(perm), pattern=pattern, fast=True)
                    return {"out": {"kind": "violation"}, "res": None}
    st.inc("probes", "c18:digitmap-cases", cases)
    st.nonvacuous += cases
    return {"out": {"kind": "sim", "cases": cases}, "res": None}


# ----------------------------------------------------------------------------------------------------------------
# C19
# ----------------------------------------------------------------------------------------------------------------
def c19_before(op, world, ctx, kwargs, pair_name):
    """Record, through the public API on copies, what the reference model needs before an arc removal."""
    acc, lm = kwargs.get("accessor"), kwargs.get("latter_map")
    if not isinstance(acc, numpy.ndarray) or not isinstance(lm, dict):
        return None
    k = world.store.meta.get(op["args"]["accessor"][1], {}).get("k")
    pre = {"acc": acc.copy(), "lm": copy.deepcopy(lm), "k": k, "scores": None}
    if ctx.prop == "C19" and not op.get("no_prescore"):
        out = SC.call(world.dsw.calculate_intersection_score,
                      dict(latter_map=copy.deepcopy(lm), observed_length=k,
                           has_insertion=kwargs.get("has_insertion", True),
                           has_deletion=kwargs.get("has_deletion", True)), jump_budget=BUDGET["remove_nasty_arc"])
        ctx.stats.lib_calls += 1
        if out.kind == "returned":
            pre["scores"] = out.value
    return pre


def oracle_c19(op, world, ctx, out, pre, kwargs, pair_name, det):
    st, store = ctx.stats, world.store
    model = world.pairs.get(pair_name)
    if pre is None or model is None or model["dead"]:
        st.vacuous += 1
        return
    k = pre["k"]
    flags = "%s%s" % ("I" if kwargs.get("has_insertion", True) else "-", "D" if kwargs.get("has_deletion", True) else "-")
    det = dict(det, k=k, flags=flags, removed_so_far=model["removed"], arcs_left=len(model["arcs"]))
    if out.kind != "returned":
        # the call that raises ends the sequence; nothing is asserted about the pair afterwards
        model["dead"] = True
        st.vacuous += 1
        st.inc("probes", "c19:sequence-ended-" + (out.exc_type or out.which or "?"))
        if not model["arcs"]:
            st.inc("probes", "c19:ran-to-exhaustion")
        return
    st.nonvacuous += 1
    value = out.value
    if not isinstance(value, tuple) or len(value) != 4:
        return ctx.fail("shape", "remove_nasty_arc returned %r" % type(value).__name__, **det)
    acc2, lm2, arc, score_list = value
    if not isinstance(acc2, numpy.ndarray) or acc2.shape != pre["acc"].shape or not isinstance(lm2, dict):
        return ctx.fail("shape", "remove_nasty_arc handed back a malformed pair", **det)
    scores = pre["scores"]
    if scores is not None:
        if not isinstance(scores, numpy.ndarray) or scores.shape != pre["acc"].shape:
            return ctx.fail("scores-shape", "intersection scores have shape %r, accessor %r" %
                            (getattr(scores, "shape", None), pre["acc"].shape), **det)
        positive = set((int(v), int(j)) for v, j in zip(*numpy.nonzero(scores > 0)))
        stray = positive - model["arcs"]
        if stray:
            return ctx.fail("scores-only-on-arcs", "positive intersection score on %r, which is not an arc" %
                            (sorted(stray)[0],), **det)
    diff = [(int(v), int(j)) for v, j in zip(*numpy.nonzero(acc2 != pre["acc"]))]
    if len(diff) != 1:
        return ctx.fail("exactly-one-arc", "%d accessor entries changed in one removal" % len(diff), changed=len(diff),
                        **det)
    v, j = diff[0]
    if (v, j) not in model["arcs"] or pre["acc"][v, j] < 0 or acc2[v, j] != -1:
        return ctx.fail("removed-arc-existed", "entry (%d, %d) changed from %d to %d: not the removal of an existing "
                        "arc" % (v, j, pre["acc"][v, j], acc2[v, j]), **det)
    successor = int(pre["acc"][v, j])
    try:
        named = (int(arc[0]), int(arc[1]))
    except Exception:
        named = None
    if named != (v, successor):
        st.inc("probes", "c19:returned-arc-does-not-name-it")   # the statement is about the pair, not this tuple
    ties = None
    if scores is not None:
        top = int(scores.max())
        if int(scores[v, j]) != top:
            return ctx.fail("maximum-score", "removed arc (%d -> %d) has score %d, the maximum before the call was %d"
                            % (v, successor, int(scores[v, j]), top), **det)
        ties = int((scores == top).sum())
    # the same clause against the simulator's own model of the intersection score (the library's scoring function is
    # not trusted to define it: a slip inside it would move the "maximum" along with the removal)
    model_scores = M.intersection_scores(model["arcs"], k, kwargs.get("has_insertion", True),
                                         kwargs.get("has_deletion", True))
    model_top = max(model_scores.values()) if model_scores else 0
    mine = model_scores.get((v, j), 0)
    if mine != model_top:
        best = sorted(a for a, sc in model_scores.items() if sc == model_top)[0]
        return ctx.fail("maximum-score", "removed arc (%d -> %d) has intersection score %d by the reference model, but "
                        "arc %r scores %d" % (v, successor, mine, best, model_top), by="model", **det)
    if scores is not None:
        lib = {(int(a), int(b)): int(scores[a, b]) for a, b in zip(*numpy.nonzero(scores))}
        if lib != {a: sc for a, sc in model_scores.items() if sc}:
            st.inc("probes", "c19:library-scores-differ-from-model")
        else:
            st.inc("probes", "c19:library-scores-equal-model")
    out_degree_before = sum(1 for jj in range(4) if (v, jj) in model["arcs"])
    model["arcs"].discard((v, j))
    model["removed"] += 1
    # both views handed back must equal the model
    expect_rows = [[(M.latters(u, k)[jj] if (u, jj) in model["arcs"] else -1) for jj in range(4)]
                   for u in range(4 ** k)]
    if acc2.tolist() != expect_rows:
        return ctx.fail("views-equal-model", "accessor handed back differs from the reference arc set", view="accessor",
                        **det)
    expect_lm = lm_from_rows(expect_rows)
    got_lm = {}
    try:
        for key, vals in lm2.items():
            got_lm[int(key)] = [int(x) for x in vals]
    except Exception:
        return ctx.fail("views-equal-model", "latter map handed back is malformed", view="latter_map", **det)
    # the two views must describe the same graph: successor *sets* per vertex (a latter map's lists carry no order)
    if [u for u in got_lm if not got_lm[u]]:
        st.inc("probes", "c19:emptied-key-kept")      # {v: []} describes the same graph as no key v
    if {u: sorted(vs) for u, vs in got_lm.items() if vs} != {u: sorted(vs) for u, vs in expect_lm.items()}:
        emptied = [u for u in got_lm if not got_lm[u]]
        return ctx.fail("views-equal-model", "latter map handed back differs from the reference arc set%s" %
                        (" (emptied key %d kept)" % emptied[0] if emptied else ""), view="latter_map",
                        emptied_key_kept=bool(emptied), source_out_degree=out_degree_before, **det)
    # the objects passed in must equal either their old value or the pair handed back - never a third state
    passed_acc, passed_lm = kwargs["accessor"], kwargs["latter_map"]
    if not (numpy.array_equal(passed_acc, acc2) or numpy.array_equal(passed_acc, pre["acc"])):
        st.inc("probes", "c19:passed-in-accessor-in-third-state")      # not part of C19 as worded
    norm_passed = {int(a): [int(x) for x in b] for a, b in passed_lm.items()}
    norm_old = {int(a): [int(x) for x in b] for a, b in pre["lm"].items()}
    def canon(lm):
        return {u: sorted(vs) for u, vs in lm.items() if vs}
    if canon(norm_passed) != canon(got_lm) and canon(norm_passed) != canon(norm_old):
        st.inc("probes", "c19:passed-in-latter-map-in-third-state")
    # the sequence continues with the pair handed back
    store.put(pair_name + ".acc", "acc", acc2, k=k, graph=pair_name, pair=pair_name)
    store.put(pair_name + ".lm", "lm", lm2, k=k, graph=pair_name, pair=pair_name)
    st.inc("probes", "c19:removal")
    if out_degree_before == 1:
        st.inc("probes", "c19:key-deleted")
    if ties is not None and ties > 1:
        st.inc("probes", "c19:tie-for-maximum")
    st.states.add("k%d/left%d/deg%d/%s/tie%s/after-%s" % (k, min(len(model["arcs"]), 40), out_degree_before, flags,
                                                         "n" if ties and ties > 1 else "1", det["prev_fn"]))


# ----------------------------------------------------------------------------------------------------------------
# C17
# ----------------------------------------------------------------------------------------------------------------
_CERT_CACHE = {}


def certificate(rows):
    key = M.rows_key(rows)
    if key not in _CERT_CACHE:
        if len(_CERT_CACHE) > 2000:
            _CERT_CACHE.clear()
        cert = certify.certify(rows)
        cert["regular"] = certify.regular_degree(rows)
        _CERT_CACHE[key] = cert
    return _CERT_CACHE[key]


def oracle_c17(op, world, ctx, out, kwargs, det):
    st = ctx.stats
    acc = kwargs["accessor"]
    rows = numpy.asarray(acc).tolist()
    k = int(round(math.log(len(rows), 4)))
    repeats, process = kwargs.get("repeats", 1), kwargs.get("process", False)
    cert = certificate(rows)
    det = dict(det, k=k, repeats=repeats, graph=cert["kind"], process=bool(process),
               mode="single-start" if repeats == 1 else "random-start")
    st.inc("probes", "c17:graph-" + cert["kind"])
    if out.kind != "returned":
        return ctx.fail("returns", "approximate_capacity did not return: %s %s" %
                        (out.exc_type or out.which, out.exc_msg or ""), **det)
    value = out.value
    record = None
    if process:
        if not isinstance(value, tuple) or len(value) != 2:
            return ctx.fail("returns", "process=True did not return a pair", **det)
        value, record = value
    try:
        result = float(value)
    except Exception:
        return ctx.fail("returns", "capacity is %r" % type(value).__name__, **det)
    st.nonvacuous += 1
    if not result <= 2.0:
        return ctx.fail("at-most-2", "capacity %r exceeds 2 bits per nucleotide" % result, **det)
    if cert["kind"] == "arcless" and result != 0.0:
        return ctx.fail("arcless-zero", "capacity of an arc-less graph is %r" % result, **det)
    if repeats == 1 and cert.get("regular"):
        d = cert["regular"]
        st.inc("probes", "c17:regular-d%d" % d)
        if result != math.log2(d) and result != float(numpy.log2(float(d))) and 2.0 ** result != float(d):
            return ctx.fail("regular-exact", "single-start capacity of a closed %d-regular graph is %r, not log2(%d)" %
                            (d, result, d), degree=d, **det)
    stop = None
    if record is not None:
        first = record[0] if repeats > 1 else record
        try:
            stop = "median-fallback" if len(first) > 500 else "tolerance"
        except Exception:
            stop = None
    if stop:
        st.inc("probes", "c17:stop-" + stop)
    if cert["kind"] == "certified" and cert["width"] > 1e-7:
        st.inc("probes", "c17:enclosure-too-wide")      # never seen; such a graph is simply not judged
        return
    if cert["kind"] == "certified":
        tol = 1e-4 + cert["width"]
        err = max(cert["lo2"] - result, result - cert["hi2"], 0.0)
        st.inc("probes", "c17:certified-%s" % det["mode"])
        if err > tol:
            clause = "random-start-within-1e-4" if repeats >= 2 else "single-start-within-1e-4"
            return ctx.fail(clause, "capacity %.10f but log2 of the spectral radius is in [%.10f, %.10f] (certified "
                            "ratio %.3f, SCC of %d): off by %.3g" % (result, cert["lo2"], cert["hi2"], cert["ratio"],
                                                                     cert["scc"], err),
                            error=err, ratio=round(cert["ratio"], 3), scc=cert["scc"], **det)
        st.max_util["C17.error/1e-4"] = max(st.max_util.get("C17.error/1e-4", 0.0), err / 1e-4)
        st.states.add("k%d/scc%d/r%.1f/rep%d/%s/after-%s" % (k, min(cert["scc"], 64) // 8, cert["ratio"], repeats,
                                                            stop, det["prev_fn"]))
    else:
        st.states.add("k%d/%s/rep%d" % (k, cert["kind"], repeats))
