"""Engine B workloads: API clients on a shared object store, RNG / clock adversaries, seeded scheduler, run and replay."""
from sim import models as M
from sim import graphs as G
from sim import seams
from sim import engine_b as B
from sim.kernel import EventLog, stream, weighted

CLOCKS = seams.SimClock.BEHAVIOURS


def profile(prop, tier):
    q = tier == "quick"
    p = {"prop": prop, "max_ops": (10, 50) if q else (20, 80), "graphs": (2, 4),
         "k_weights": [(2, 5), (3, 3)], "verbose_share": 0.4,
         "clients": {"coder": 4, "designer": 2, "converter": 3, "analyst": 2, "shuffler": 1, "trimmer": 1.5,
                     "rng": 1, "clock": 0.5, "owner": 0.7}}
    if prop == "C18":
        p["clients"] = {"coder": 4, "designer": 0.5, "converter": 0.5, "analyst": 1.5, "shuffler": 6, "trimmer": 1.5,
                        "rng": 3, "clock": 1, "owner": 1.5}
        p["max_ops"] = (10, 40)
    elif prop == "C19":
        p["clients"] = {"coder": 2, "designer": 0.5, "converter": 2, "analyst": 1.5, "shuffler": 0.3, "trimmer": 8,
                        "rng": 0.3, "clock": 0.3}
        p["max_ops"] = (15, 60) if q else (30, 160)
        p["k_weights"] = [(2, 5), (3, 2), (4, 0.3)]
    elif prop == "C17":
        p["clients"] = {"coder": 0.5, "designer": 0.3, "converter": 0.5, "analyst": 8, "shuffler": 2, "trimmer": 0.5,
                        "rng": 3, "clock": 1.5}
        p["k_weights"] = [(2, 5), (3, 4), (4, 1)]
        p["max_ops"] = (10, 40)
    return p


safe_starts = M.safe_starts


class Sim(object):
    def __init__(self, prop, tier, seed, fresh=True):
        self.prop, self.tier, self.seed = prop, tier, seed
        self.prof = profile(prop, tier)
        self.rng = stream(seed, "data")
        self.sched = stream(seed, "schedule")
        cfg = stream(seed, "config")
        self.max_ops = cfg.randint(*self.prof["max_ops"])
        self.n_graphs = cfg.randint(*self.prof["graphs"])
        self.verbose_share = cfg.choice([0.0, self.prof["verbose_share"], 0.8])
        self.clock0 = cfg.choice(CLOCKS)
        self.columns = cfg.choice([None, None, "80", "200", "10", "100000", "0"])   # terminal width the process sees
        self.mixed_k = cfg.random() < 0.7
        self.k0 = weighted(cfg, self.prof["k_weights"])
        self.world = B.World(prop)
        self.stats = B.Stats()
        self.ctx = B.Ctx(prop, self.stats, fresh=fresh)
        self.log = EventLog()
        self.ops = []
        self.counter = {}
        self.ctor = stream(seed, "ctor")   # the constructor client has its own stream and its own object kinds, so
        #                                    the operations of all other clients are what they were without it
        self.provenance = {}     # strand name -> (graph name, start, bits name, fast, table)
        self.flags = {}          # pair name -> (ins, del)

    # -- helpers ------------------------------------------------------------------------------------------------
    def fresh_name(self, prefix):
        self.counter[prefix] = self.counter.get(prefix, 0) + 1
        return "%s%d" % (prefix, self.counter[prefix] - 1)

    def config(self):
        return {"max_ops": self.max_ops, "n_graphs": self.n_graphs, "verbose_share": self.verbose_share,
                "clock": self.clock0, "mixed_k": self.mixed_k, "k0": self.k0, "columns": self.columns}

    def do(self, op):
        rec = B.execute(op, self.world, self.ctx)
        self.ops.append(op)
        self.log.append({"i": len(self.ops) - 1, "op": op, "out": rec.get("out"), "res": rec.get("res"),
                         "stdout": rec.get("stdout"), "rng": rec.get("rng")})
        return rec

    def verbose(self):
        return self.rng.random() < self.verbose_share

    def pick(self, kind, pred=None, prefer_pair=False):
        names = self.world.store.names(kind, pred)
        if not names:
            return None
        if prefer_pair:
            pairs = [n for n in names if self.world.store.meta[n].get("pair")]
            if pairs and self.rng.random() < 0.75:
                return self.rng.choice(pairs)
        return self.rng.choice(names)

    def rows_of(self, acc_name):
        return self.world.store.objs[acc_name].tolist()

    def k_of(self, name):
        return self.world.store.meta[name].get("k")

    # -- setup ---------------------------------------------------------------------------------------------------
    def setup(self):
        rng = self.rng
        self.do({"op": "CLOCK", "behaviour": self.clock0, "cseed": self.seed})
        ks = []
        for i in range(self.n_graphs):
            k = self.k0 if not self.mixed_k or i == 0 else weighted(rng, self.prof["k_weights"])
            if self.prop == "C17" and rng.random() < 0.15:
                k = rng.choice([2, 3])
            ks.append(k)
            shape = weighted(rng, [("closed", 4), ("any", 2), ("fast", 1), ("regular", 1 if self.prop == "C17" else 0.2),
                                   ("empty", 0.3 if self.prop == "C17" else 0.05), ("dag", 0.4 if self.prop == "C17" else 0.1),
                                   ("doc", 0.5), ("hub", 1.2 if self.prop == "C17" else 0.3)])
            if shape == "regular":
                if rng.random() < 0.4:
                    arcs = G.rows_to_arcs(G.regular_dangling_rows(rng, k, rng.randint(1, 3)))
                elif rng.random() < 0.5:
                    arcs = G.rows_to_arcs(G.regular_norepeat_rows(rng, k, rng.randint(1, 3)))
                else:
                    arcs = G.rows_to_arcs(G.regular_closed_rows(rng, k, rng.randint(1, 4)))
            elif shape == "hub":
                arcs = G.rows_to_arcs(G.hub_rows(rng, k, rng.choice([0, 0, 4 ** k - 1])))
            elif shape == "empty":
                arcs = "0" * (4 ** (k + 1))
            elif shape == "dag":
                rows = G.arcs_to_rows(G.random_arcs(rng, k, "any"), k)
                arcs = G.rows_to_arcs([[w if w > v else -1 for w in rows[v]] for v in range(len(rows))])
            elif shape == "doc":
                k = 2
                ks[-1] = 2
                arcs = G.rows_to_arcs(G.DOC_ROWS)
            else:
                arcs = G.random_arcs(rng, k, shape)
            new = {"op": "NEW", "kind": "graph", "name": self.fresh_name("G"), "k": k, "arcs": arcs}
            if rng.random() < 0.35:
                new["lm_order"] = rng.getrandbits(20)      # successor lists in arbitrary (user-supplied) order
            if rng.random() < 0.2:
                new["layout"] = rng.choice(["F", "view"])  # Fortran-ordered / non-contiguous accessor
            if rng.random() < 0.15:
                new["lm_type"] = "defaultdict"             # a latter map built with collections.defaultdict(list)
            self.do(new)
        for k in sorted(set(ks)):
            self.do({"op": "NEW", "kind": "mask", "name": self.fresh_name("K"), "k": k, "bits": G.random_mask(rng, k),
                     "dtype": rng.choice(["bool", "int"])})
            digits = "".join("".join(map(str, rng.sample(range(4), 4))) for _ in range(4 ** k))
            tab = {"op": "NEW", "kind": "table", "name": self.fresh_name("T"), "k": k, "digits": digits}
            if rng.random() < 0.3:
                tab["dtype"] = rng.choice(["uint8", "int8", "int32", "uint16"])
            self.do(tab)
            self.do({"op": "NEW", "kind": "filter", "name": self.fresh_name("F"), "cfg": G.random_filter(rng, k)})
        for _ in range(rng.randint(1, 3)):
            L = rng.choice([0, 1, 7, 8, rng.randint(0, 40)])
            self.do({"op": "NEW", "kind": "bits", "name": self.fresh_name("B"),
                     "bits": "".join(rng.choice("01") for _ in range(L))})
        for name in self.world.store.names("acc"):
            rows, k = self.rows_of(name), self.k_of(name)
            live = M.live_vertices(rows)
            if live and rng.random() < 0.8:
                start = rng.choice(live)
                n = rng.randint(k, 30)
                w = M.random_walk(rng, rows, start, n)
                if w:
                    if rng.random() < 0.5 and len(w) > 2:
                        p = rng.randrange(len(w))
                        w = w[:p] + rng.choice([c for c in M.NT if c != w[p]]) + w[p + 1:]
                    sname = self.fresh_name("S")
                    self.do({"op": "NEW", "kind": "strand", "name": sname, "s": w})
                    self.provenance[sname] = (name, start, None, False, None)
        self.do({"op": "NEW", "kind": "strand", "name": self.fresh_name("S"),
                 "s": "".join(rng.choice(M.NT) for _ in range(rng.randint(0, 20)))})
        if self.prop in ("C19", "C18") or rng.random() < 0.5:
            self.new_pair()

    def new_pair(self):
        rng = self.rng
        kmax = 4 if self.prop == "C19" else 3
        graphs = [n[:-4] for n in self.world.store.names("acc") if not self.world.store.meta[n].get("pair")
                  and self.k_of(n) <= kmax and M.arcs(self.rows_of(n))]
        if not graphs:
            return None
        name = self.fresh_name("P")
        new = {"op": "NEW", "kind": "pair", "name": name, "from": rng.choice(graphs), "numpy_keys": rng.random() < 0.5}
        if rng.random() < 0.3:
            new["lm_order"] = rng.getrandbits(20)
        if rng.random() < 0.2:
            new["layout"] = rng.choice(["F", "view"])
        if rng.random() < 0.15:
            new["lm_type"] = "defaultdict"
        self.do(new)
        self.flags[name] = (rng.random() < 0.7, rng.random() < 0.7)
        return name

    # -- clients ---------------------------------------------------------------------------------------------------
    def client_coder(self):
        rng, store = self.rng, self.world.store
        fn = weighted(rng, [("encode", 4), ("decode", 3), ("set_vt", 1), ("repair_dna", 2), ("path_matching", 1),
                            ("filter.valid", 1), ("conv", 2)])
        acc = self.pick("acc", prefer_pair=self.prop in ("C19", "C18"))
        if fn == "conv":
            return self.client_conversions()
        if fn == "set_vt":
            s = self.pick("strand")
            return {"op": "CALL", "fn": "set_vt", "args": {"dna_sequence": ["ref", s],
                                                         "vt_length": ["lit", rng.choice([1, 2, 5, 12, 33])]}}
        if fn == "filter.valid":
            f, s = self.pick("filter"), self.pick("strand")
            if f is None:
                return None
            return {"op": "CALL", "fn": "filter.valid", "args": {"self": ["ref", f], "dna_sequence": ["ref", s],
                                                               "only_last": ["lit", rng.random() < 0.5]}}
        if acc is None:
            return None
        rows, k = self.rows_of(acc), self.k_of(acc)
        table = self.pick("table", lambda n: self.k_of(n) == k) if rng.random() < (0.85 if self.prop == "C18" else 0.4) \
            else None
        if fn == "encode":
            bits = self.pick("bits")
            safe = safe_starts(rows)
            if safe and rng.random() < 0.92:
                start = rng.choice(safe)
            else:
                start = rng.randrange(4 ** k)
            fast = M.degree_multiset(rows)[3] == 0 and rng.random() < 0.3
            vt = rng.choice([0, 0, k + 1, 5])
            need_path = rng.random() < 0.2
            sname = self.fresh_name("S")
            store_map = {"": {"kind": "strand", "name": sname}} if (vt == 0 and not need_path) else \
                {"0": {"kind": "strand", "name": sname}}
            self.provenance[sname] = (acc, start, bits, fast, table)
            op = {"op": "CALL", "fn": "encode", "verbose": self.verbose(), "store": store_map,
                  "args": {"binary_message": ["ref", bits], "accessor": ["ref", acc], "start_index": ["lit", start],
                           "is_faster": ["lit", fast], "vt_length": ["lit", vt], "need_path": ["lit", need_path],
                           "shuffles": ["ref", table] if table else ["lit", None]}}
            return op
        s = self.pick("strand", (lambda n: n in self.provenance and self.provenance[n][0] == acc)
                      if rng.random() < 0.7 else None) or self.pick("strand")
        prov = self.provenance.get(s)
        start = prov[1] if prov and prov[0] == acc and rng.random() < 0.9 else rng.randrange(4 ** k)
        if fn == "decode":
            L = len(store.objs[prov[2]]) if prov and prov[2] in store.objs else rng.randint(0, 40)
            fast = bool(prov and prov[3]) if rng.random() < 0.8 else (M.degree_multiset(rows)[3] == 0 and
                                                                         rng.random() < 0.3)
            tab = prov[4] if prov and rng.random() < 0.8 else table
            if fast:
                L = max(L, 2 * len(store.objs[s]) + 2) if rng.random() < 0.7 else L
            return {"op": "CALL", "fn": "decode", "verbose": self.verbose(),
                    "store": {"": {"kind": "bits", "name": self.fresh_name("B")}},
                    "args": {"dna_sequence": ["ref", s], "bit_length": ["lit", L], "accessor": ["ref", acc],
                             "start_index": ["lit", start], "is_faster": ["lit", fast],
                             "vt_check": ["lit", None if rng.random() < 0.7 else M.vt(
                                 "".join(c for c in store.objs[s] if c in M.NT), k + 1)],
                             "shuffles": ["ref", tab] if tab and tab in store.objs else ["lit", None]}}
        if fn == "repair_dna":
            return {"op": "CALL", "fn": "repair_dna",
                    "args": {"dna_sequence": ["ref", s], "accessor": ["ref", acc], "start_index": ["lit", start],
                             "observed_length": ["lit", k], "has_indel": ["lit", rng.random() < 0.6],
                             "heap_size": ["lit", rng.choice([1, 10, 1000])],
                             "vt_check": ["lit", None if rng.random() < 0.6 else M.vt(
                                 "".join(c for c in store.objs[s] if c in M.NT), k + 1)]}}
        live = M.live_vertices(rows) or [0]
        n = len(store.objs[s])
        return {"op": "CALL", "fn": "path_matching",
                "args": {"dna_sequence": ["ref", s], "accessor": ["ref", acc],
                         "previous_index": ["lit", rng.choice(live)],
                         "occur_location": ["lit", rng.randrange(n) if n else 0],
                         "has_indel": ["lit", rng.random() < 0.6]}}

    def client_conversions(self):
        rng = self.rng
        fn = rng.choice(["bit_to_number", "number_to_bit", "dna_to_number", "number_to_dna", "calculus"])
        if fn == "bit_to_number":
            return {"op": "CALL", "fn": fn, "verbose": self.verbose(),
                    "args": {"bit_array": ["ref", self.pick("bits")], "is_string": ["lit", rng.random() < 0.6]}}
        if fn == "number_to_bit":
            v = rng.getrandbits(rng.randint(0, 60))
            return {"op": "CALL", "fn": fn, "args": {"decimal_number": ["lit", str(v) if rng.random() < 0.6 else v],
                                                    "bit_length": ["lit", rng.randint(0, 70)]}}
        if fn == "dna_to_number":
            return {"op": "CALL", "fn": fn, "args": {"dna_sequence": ["ref", self.pick("strand")],
                                                    "is_string": ["lit", rng.random() < 0.6]}}
        if fn == "number_to_dna":
            v = rng.getrandbits(rng.randint(0, 60))
            return {"op": "CALL", "fn": fn, "args": {"decimal_number": ["lit", str(v) if rng.random() < 0.6 else v],
                                                    "dna_length": ["lit", rng.randint(0, 40)]}}
        name = rng.choice(["calculus_addition", "calculus_multiplication", "calculus_division", "calculus_subtraction"])
        number = str(rng.getrandbits(rng.randint(1, 80)) + 10)
        return {"op": "CALL", "fn": name, "args": {"number": ["lit", number], "base": ["lit", str(rng.randint(0, 9))]}}

    def client_designer(self):
        rng = self.rng
        fn = weighted(rng, [("find_vertices", 2), ("connect_valid_graph", 2), ("connect_coding_graph", 4)])
        if fn == "find_vertices":
            f = self.pick("filter")
            if f is None:
                return None
            k = self.k_of(f)
            return {"op": "CALL", "fn": fn, "verbose": self.verbose(),
                    "store": {"": {"kind": "mask", "name": self.fresh_name("K"), "k": k}},
                    "args": {"observed_length": ["lit", k], "bio_filter": ["ref", f]}}
        m = self.pick("mask")
        if m is None:
            return None
        k = self.k_of(m)
        if fn == "connect_valid_graph":
            return {"op": "CALL", "fn": fn, "verbose": self.verbose(),
                    "store": {"": {"kind": "graph", "name": self.fresh_name("G"), "k": k}},
                    "args": {"observed_length": ["lit", k], "vertices": ["ref", m]}}
        t = weighted(rng, [(1, 3), (2, 3), (3, 1), (4, 1)])
        store_map = {"1": {"kind": "graph", "name": self.fresh_name("G"), "k": k}}
        if t >= 2:
            store_map["0"] = {"kind": "mask", "name": self.fresh_name("K"), "k": k}
        return {"op": "CALL", "fn": fn, "verbose": self.verbose(), "store": store_map,
                "args": {"observed_length": ["lit", k], "vertices": ["ref", m], "threshold": ["lit", t]}}

    def client_converter(self):
        rng = self.rng
        fn = weighted(rng, [("accessor_to_latter_map", 3), ("latter_map_to_accessor", 3),
                            ("accessor_to_adjacency_matrix", 2), ("adjacency_matrix_to_accessor", 2),
                            ("remove_useless", 2), ("obtain_vertices", 2), ("obtain_leaf_vertices", 3),
                            ("obtain_formers", 1), ("obtain_latters", 1), ("get_complete_accessor", 1)])
        pp = self.prop == "C19"
        if fn == "accessor_to_latter_map":
            acc = self.pick("acc", prefer_pair=pp)
            return {"op": "CALL", "fn": fn, "verbose": self.verbose(),
                    "store": {"": {"kind": "lm", "name": self.fresh_name("L"), "k": self.k_of(acc)}},
                    "args": {"accessor": ["ref", acc]}}
        if fn == "latter_map_to_accessor":
            lm = self.pick("lm", prefer_pair=pp)
            k = self.k_of(lm)
            return {"op": "CALL", "fn": fn, "verbose": self.verbose(),
                    "store": {"": {"kind": "graph", "name": self.fresh_name("G"), "k": k}},
                    "args": {"latter_map": ["ref", lm], "observed_length": ["lit", k],
                             "threshold": ["lit", rng.choice([None, None, 1, 2, 3])]}}
        if fn == "accessor_to_adjacency_matrix":
            acc = self.pick("acc", lambda n: self.k_of(n) <= 3, prefer_pair=pp)
            if acc is None:
                return None
            return {"op": "CALL", "fn": fn, "verbose": self.verbose(), "args": {"accessor": ["ref", acc]}}
        if fn == "adjacency_matrix_to_accessor":
            adj = self.pick("adj")
            if adj is None:
                return None
            return {"op": "CALL", "fn": fn, "verbose": self.verbose(),
                    "store": {"": {"kind": "graph", "name": self.fresh_name("G"), "k": self.k_of(adj)}},
                    "args": {"matrix": ["ref", adj]}}
        if fn == "remove_useless":
            lm = self.pick("lm", prefer_pair=pp)
            return {"op": "CALL", "fn": fn, "verbose": self.verbose(),
                    "store": {"": {"kind": "lm", "name": self.fresh_name("L"), "k": self.k_of(lm)}},
                    "args": {"latter_map": ["ref", lm], "threshold": ["lit", rng.randint(1, 3)]}}
        if fn == "obtain_vertices":
            return {"op": "CALL", "fn": fn, "args": {"accessor": ["ref", self.pick("acc", prefer_pair=pp)]}}
        if fn == "obtain_leaf_vertices":
            if rng.random() < 0.5:
                acc = self.pick("acc", prefer_pair=pp)
                return {"op": "CALL", "fn": fn, "args": {"vertex_index": ["lit", rng.randrange(4 ** self.k_of(acc))],
                                                        "depth": ["lit", rng.randint(0, 3)], "accessor": ["ref", acc]}}
            lm = self.pick("lm", prefer_pair=pp)
            return {"op": "CALL", "fn": fn, "args": {"vertex_index": ["lit", rng.randrange(4 ** self.k_of(lm))],
                                                    "depth": ["lit", rng.randint(0, 3)], "latter_map": ["ref", lm]}}
        k = rng.choice([1, 2, 3])
        if fn == "get_complete_accessor" and self.prop == "C20" and rng.random() < 0.35:
            # thousands of progress states in one verbose call (results of this size are not kept in the store), half of
            # the time right after the clock starts misbehaving (a fault placed inside the operation that it can hurt)
            if rng.random() < 0.5:
                self.do({"op": "CLOCK", "behaviour": rng.choice(["huge-steps", "epoch-correction", "backward-jumps",
                                                                  "frozen"]), "cseed": rng.getrandbits(20)})
            return {"op": "CALL", "fn": "get_complete_accessor", "verbose": True,
                    "args": {"observed_length": ["lit", rng.choice([5, 6, 7, 8, 8])]}}
        if fn in ("obtain_formers", "obtain_latters"):
            return {"op": "CALL", "fn": fn, "args": {"current": ["lit", rng.randrange(4 ** k)],
                                                    "observed_length": ["lit", k]}}
        return {"op": "CALL", "fn": "get_complete_accessor", "verbose": self.verbose(),
                "store": {"": {"kind": "graph", "name": self.fresh_name("G"), "k": k}},
                "args": {"observed_length": ["lit", k]}}

    def client_analyst(self):
        rng = self.rng
        pp = self.prop == "C19"
        if self.prop != "C17" and rng.random() < 0.4:
            lm = self.pick("lm", lambda n: self.k_of(n) <= 3, prefer_pair=pp)
            if lm is None:
                return None
            return {"op": "CALL", "fn": "calculate_intersection_score", "verbose": self.verbose(),
                    "args": {"latter_map": ["ref", lm], "observed_length": ["lit", self.k_of(lm)],
                             "has_insertion": ["lit", rng.random() < 0.6], "has_deletion": ["lit", rng.random() < 0.6]}}
        acc = self.pick("acc", prefer_pair=pp)
        repeats = weighted(rng, [(1, 4), (2, 3), (3, 1), (5, 1), (10, 1)])
        op = {"op": "CALL", "fn": "approximate_capacity", "verbose": self.verbose(),
              "args": {"accessor": ["ref", acc], "repeats": ["lit", repeats], "process": ["lit", rng.random() < 0.4]}}
        if repeats > 1 and self.prop in ("C20", "C19"):
            op["rng_seed"] = rng.getrandbits(31)
        return op

    def client_shuffler(self):
        rng = self.rng
        k = weighted(rng, [(1, 2), (2, 4), (3, 3), (4, 2), (5, 1), (6, 0.5)]) if self.prop == "C18" else \
            rng.choice([1, 2, 3, 3, 6] if self.prop == "C20" else [1, 2, 3])
        seed = weighted(rng, [(None, 2), (0, 1), (1, 1), (2021, 2), (2 ** 32 - 1, 1), (rng.getrandbits(20), 4),
                              (rng.choice([7, 11, 13]), 4)])
        op = {"op": "CALL", "fn": "create_random_shuffles", "verbose": self.verbose(),
              "store": {"": {"kind": "table", "name": self.fresh_name("T"), "k": k}},
              "args": {"observed_length": ["lit", k], "random_seed": ["lit", seed]}}
        if seed is not None and rng.random() < 0.2:
            op["np_args"] = ["random_seed"]          # seeds drawn from a numpy array are numpy integers
        return op

    def client_trimmer(self):
        rng = self.rng
        pairs = [p for p in sorted(self.world.pairs) if not self.world.pairs[p]["dead"]]
        if self.prop in ("C20", "C19") and rng.random() < 0.2 and len(self.world.pairs) < 4:
            # take over (no copy) a latter map or an accessor that an earlier call handed back
            store = self.world.store
            cands = [n for n in sorted(self.world.owned) if n in store.objs and store.kinds[n] in ("lm", "acc")
                     and (store.meta[n].get("k") or 9) <= 3 and not store.meta[n].get("pair")]
            if cands:
                name = self.fresh_name("P")
                self.do({"op": "NEW", "kind": "pair-adopt", "name": name, "from": rng.choice(cands),
                         "lm_order": rng.getrandbits(20) if rng.random() < 0.3 else None})
                if name in self.world.pairs:
                    self.flags[name] = (rng.random() < 0.7, rng.random() < 0.7)
                    pairs = [name]
        if not pairs or (rng.random() < 0.05 and len(self.world.pairs) < 3):
            name = self.new_pair()
            if name is None:
                return None
            pairs = [name]
        p = rng.choice(pairs)
        ins, dele = self.flags.get(p, (True, True))
        model = self.world.pairs[p]
        op = {"op": "CALL", "fn": "remove_nasty_arc", "verbose": self.verbose(),
              "args": {"accessor": ["ref", p + ".acc"], "latter_map": ["ref", p + ".lm"],
                       "iteration": ["lit", model["removed"]], "has_insertion": ["lit", ins],
                       "has_deletion": ["lit", dele]}}
        if rng.random() < 0.2:
            op["no_prescore"] = True     # two removals in a row with no scoring call of the harness in between
        return op

    def client_owner(self):
        """The owner of something the library handed back edits it in place."""
        rng = self.rng
        names = [n for n in sorted(self.world.owned) if n in self.world.store.objs and
                 self.world.store.kinds[n] in ("table", "bits", "mask")]
        if not names:
            return None
        return {"op": "OWNEDIT", "name": rng.choice(names), "how": rng.getrandbits(20)}

    def client_rng(self):
        rng = self.rng
        action = weighted(rng, [("seed", 3), ("draw", 3), ("shuffle", 1)])
        if action == "seed":
            return {"op": "RNG", "action": "seed", "value": rng.choice([0, 1, 2021, rng.getrandbits(31)])}
        return {"op": "RNG", "action": action, "n": rng.choice([1, 3, 16, 257])}

    def client_constructor(self):
        """Builds filters from lists it keeps (and shares between filters), uses them, and builds again (C20: a
        constructor call is a call, the motif list and the G+C bounds are its arguments)."""
        rng, store = self.ctor, self.world.store
        filters = store.names("cfilter")
        what = weighted(rng, [("lists", 1 if store.names("motifs") else 6), ("build", 4), ("valid", 3 if filters else 0),
                              ("find", 1.5 if filters else 0), ("tiny", 2.5)])
        if what == "tiny":
            # arc removal and scoring on graphs that are (nearly) exhausted: one arc, a loop, a two-cycle, a few arcs
            tiny = store.names("xacc")
            if not tiny or (len(tiny) < 3 and rng.random() < 0.3):
                k = rng.choice([2, 2, 3])
                n = 4 ** k
                rows = [[-1] * 4 for _ in range(n)]
                shape = rng.choice(["arc", "loop", "two-cycle", "few", "few"])
                if shape == "loop":
                    rows[0][0] = 0
                elif shape == "two-cycle":
                    u, v = (1, 4) if k == 2 else (17, 4)          # AC <-> CA / ACAC... : u -> v -> u
                    rows[u][v % 4], rows[v][u % 4] = v, u
                else:
                    for _ in range(1 if shape == "arc" else rng.randint(2, 4)):
                        u, j = rng.randrange(n), rng.randrange(4)
                        rows[u][j] = (u * 4 + j) % n
                return {"op": "NEW", "kind": "xgraph", "name": self.fresh_name("X"), "k": k, "arcs": G.rows_to_arcs(rows)}
            acc = rng.choice(tiny)
            lm = acc[:-4] + ".lm"
            if rng.random() < 0.75:
                return {"op": "CALL", "fn": "remove_nasty_arc", "verbose": rng.random() < 0.5,
                        "args": {"accessor": ["ref", acc], "latter_map": ["ref", lm], "iteration": ["lit", 0],
                                 "has_insertion": ["lit", rng.random() < 0.6], "has_deletion": ["lit", rng.random() < 0.6]}}
            return {"op": "CALL", "fn": "calculate_intersection_score", "verbose": rng.random() < 0.5,
                    "args": {"latter_map": ["ref", lm], "has_insertion": ["lit", rng.random() < 0.6],
                             "has_deletion": ["lit", rng.random() < 0.6], "observed_length": ["lit", self.k_of(acc)]}}
        if what == "lists":
            k = rng.choice(sorted(set(self.k_of(n) for n in store.names("mask"))) or [2])
            cfg = G.random_filter(rng, k)
            motifs = cfg["motifs"] or ["".join(rng.choice(M.NT) for _ in range(rng.randint(1, k)))]
            self.do({"op": "NEW", "kind": "motifs", "name": self.fresh_name("U"), "k": k, "items": motifs})
            return {"op": "NEW", "kind": "gcr", "name": self.fresh_name("R"), "k": k, "items": cfg["gc"] or [0.25, 0.75]}
        if what == "build":
            m = (lambda names: rng.choice(names) if names else None)(store.names("motifs"))
            if m is None:
                return None
            k = self.k_of(m)
            r = (lambda names: rng.choice(names) if names else None)(store.names("gcr", lambda n: self.k_of(n) == k))
            return {"op": "CALL", "fn": "LocalBioFilter",
                    "store": {"": {"kind": "cfilter", "name": self.fresh_name("CF"), "k": k}},
                    "args": {"observed_length": ["lit", k],
                             "max_homopolymer_runs": ["lit", rng.choice([None, 1, 2, k])],
                             "gc_range": ["ref", r] if r and rng.random() < 0.7 else ["lit", None],
                             "undesired_motifs": ["ref", m] if rng.random() < 0.85 else ["lit", None]}}
        f = rng.choice(filters)
        if what == "valid":
            strands = store.names("strand")
            if not strands:
                return None
            return {"op": "CALL", "fn": "filter.valid", "args": {"self": ["ref", f], "dna_sequence": ["ref", rng.choice(strands)],
                                                               "only_last": ["lit", rng.random() < 0.5]}}
        # the filter's own window need not be the length of the k-mers it is asked to screen
        k = min(4, max(1, self.k_of(f) + rng.choice([0, 0, -1, 1])))
        return {"op": "CALL", "fn": "find_vertices", "verbose": rng.random() < 0.3,
                "args": {"observed_length": ["lit", k], "bio_filter": ["ref", f]}}

    def client_clock(self):
        return {"op": "CLOCK", "behaviour": self.rng.choice(CLOCKS), "cseed": self.rng.getrandbits(20)}

    # -- run -----------------------------------------------------------------------------------------------------
    def run(self):
        seams.begin_run(stream(self.seed, "rngseam"), "steady", None)
        self.log.append({"seed": self.seed, "prop": self.prop, "tier": self.tier, "config": self.config()})
        self.do({"op": "ENV", "columns": self.columns})
        if self.prop == "C18" and self.seed % 100 == 0:
            self.do({"op": "DIGITMAP"})
        if self.ctx.violation is None:
            self.setup()
        table = [(name, w) for name, w in sorted(self.prof["clients"].items())]
        misses, base, extra = 0, len(self.ops), 0
        while self.ctx.violation is None and len(self.ops) - base - extra < self.max_ops and misses < 40:
            client = weighted(self.sched, table)
            op = getattr(self, "client_" + client)()
            if op is None or any(v[0] == "ref" and v[1] is None for v in op.get("args", {}).values()):
                misses += 1
                continue
            self.do(op)
            if self.prop == "C20" and self.ctx.violation is None and self.ctor.random() < 0.15:
                before = len(self.ops)
                op = self.client_constructor()
                if op is not None:
                    self.do(op)
                extra += len(self.ops) - before
        return self.ctx.violation


# ----------------------------------------------------------------------------------------------------------------
# engine adapter
# ----------------------------------------------------------------------------------------------------------------
HYPOTHESIS_EVERY = 40     # thorough tier: one run seed in 40 is spent on the Hypothesis explorer (C19, C20)


def run_hypothesis(prop, tier, seed):
    from sim import hypo_b
    from sim.kernel import sha
    failing, sims, digest, examples, steps = hypo_b.explore(prop, tier, seed)
    total = B.Stats()
    for s in sims:
        for table in ("ops", "faults", "probes", "extra"):
            for k, v in getattr(s.stats, table).items():
                total.inc(table, k, v)
        total.lib_calls += s.stats.lib_calls
        total.vacuous += s.stats.vacuous
        total.nonvacuous += s.stats.nonvacuous
        total.states |= s.stats.states
    total.inc("extra", "hypothesis_examples", examples)
    total.inc("extra", "hypothesis_steps", steps)
    total.inc("extra", "hypothesis_invocations", 1)
    if failing is not None:
        return {"ops": failing.ops, "violation": failing.ctx.violation, "digest": digest, "stats": total,
                "config": dict(failing.config(), explorer="hypothesis", sim_seed=failing.seed), "nontrivial": True,
                "result_digest": digest[:20], "trace_seed": failing.seed}
    return {"ops": [], "violation": None, "digest": digest, "stats": total,
            "config": {"explorer": "hypothesis", "examples": examples, "steps": steps}, "nontrivial": total.nonvacuous > 0,
            "result_digest": digest[:20]}


def run_one(prop, tier, seed, proxy=True):
    if tier == "thorough" and prop in ("C19", "C20") and seed % HYPOTHESIS_EVERY == HYPOTHESIS_EVERY - 1:
        return run_hypothesis(prop, tier, seed)
    sim = Sim(prop, tier, seed)
    violation = sim.run()
    st = sim.stats
    for f in ("RNG:seed", "RNG:draw", "RNG:shuffle"):
        pass
    return {"ops": sim.ops, "violation": violation, "digest": sim.log.digest(), "stats": st, "config": sim.config(),
            "nontrivial": st.nonvacuous > 0, "result_digest": sim.log.digest()[:20]}


def replay_ops(prop, ops, seed=0):
    # same entropy stream and initial global-RNG state as the run the trace came from
    seams.begin_run(stream(seed, "rngseam"), "steady", None)
    world = B.World(prop)
    stats = B.Stats()
    ctx = B.Ctx(prop, stats)
    log = EventLog()
    for i, op in enumerate(ops):
        rec = B.execute(op, world, ctx)
        log.append({"i": i, "op": op, "out": rec.get("out"), "res": rec.get("res"), "stdout": rec.get("stdout"),
                    "rng": rec.get("rng")})
        if ctx.violation is not None:
            return ctx.violation, i, log, stats
    return None, len(ops), log, stats


def replay(prop, trace):
    violation, index, log, stats = replay_ops(prop, trace["ops"], seed=trace.get("seed", 0))
    return violation, index, log.digest()


def clock_span():
    return seams.CLOCKSEAM.span_seconds()


def simplifications(ops):
    last, head = ops[-1], ops[:-1]

    def with_last(**changes):
        new = dict(last)
        new.update(changes)
        return head + [new]

    if last["op"] == "CALL":
        if last.get("verbose"):
            yield with_last(verbose=False)
        if last.get("store"):
            yield with_last(store=None)
        args = last["args"]
        for param, (mode, value) in sorted(args.items()):
            if mode != "lit":
                continue
            simpler = []
            if isinstance(value, bool):
                simpler = [False] if value else []
            elif isinstance(value, int) and param in ("repeats",):
                simpler = [v for v in (1, 2) if v < value]
            elif isinstance(value, int) and param in ("vt_length", "threshold", "depth", "bit_length", "heap_size"):
                simpler = [v for v in (0, 1) if v < value and not (param == "threshold" and v == 0)]
            elif isinstance(value, str) and param == "vt_check":
                simpler = [None]
            for v in simpler:
                new_args = dict(args)
                new_args[param] = ["lit", v]
                yield with_last(args=new_args)
    # shrink NEW objects
    for i, op in enumerate(head):
        if op["op"] != "NEW":
            continue
        if op["kind"] == "bits" and op["bits"]:
            yield head[:i] + [dict(op, bits=op["bits"][:len(op["bits"]) // 2])] + head[i + 1:] + [last]
        if op["kind"] == "strand" and len(op["s"]) > 1:
            yield head[:i] + [dict(op, s=op["s"][:len(op["s"]) // 2])] + head[i + 1:] + [last]
        if op["kind"] == "graph" and "0" in op["arcs"] and op["k"] <= 2:
            yield head[:i] + [dict(op, arcs="1" * len(op["arcs"]))] + head[i + 1:] + [last]
    for i, op in enumerate(head):
        if op["op"] == "CLOCK" and op["behaviour"] != "steady":
            yield head[:i] + [dict(op, behaviour="steady")] + head[i + 1:] + [last]
        if op["op"] == "CALL" and op.get("verbose"):
            yield head[:i] + [dict(op, verbose=False)] + head[i + 1:] + [last]


def prepare():
    """Called by the worker right after the seams are installed and before any call into dsw."""
    B.ensure_zygote()


def finish():
    from sim.zygote import ZYGOTE
    ZYGOTE.stop()
