"""Command line: check <id> quick|thorough [--replay file] | selftest-determinism | selftest-sensitivity"""
import os
import sys

HERE = os.path.dirname(os.path.dirname(os.path.abspath(__file__)))
if HERE not in sys.path:
    sys.path.insert(0, HERE)

from sim import runner  # noqa: E402


def main(argv):
    if len(argv) < 2:
        print(__doc__)
        return 2
    cmd = argv[1]
    seed = int(os.environ.get("VERIF_SEED", "0") or 0)
    if cmd == "selftest-determinism":
        from sim import selftest
        return selftest.determinism(argv[2:], seed)
    if cmd == "selftest-sensitivity":
        from sim import selftest
        return selftest.sensitivity(argv[2:], seed)
    if cmd == "selftest-transparency":
        from sim import selftest
        return selftest.transparency(argv[2:], seed)
    prop = cmd
    if "--replay" in argv:
        return runner.replay_file(argv[argv.index("--replay") + 1])
    tier = argv[2] if len(argv) > 2 and not argv[2].startswith("--") else os.environ.get("VERIF_TIER", "quick")
    n_runs = int(argv[argv.index("--runs") + 1]) if "--runs" in argv else None
    workers = int(argv[argv.index("--workers") + 1]) if "--workers" in argv else None
    return runner.check(prop, tier, seed=seed, n_runs=n_runs, workers=workers,
                        write_evidence="--no-evidence" not in argv)


if __name__ == "__main__":
    sys.exit(main(sys.argv))
