"""Seams: everything nondeterministic the library (or its process) can touch is owned here.

* global numpy RNG  - numpy.random.seed is wrapped: seed(None), where the shipped code pulls OS entropy
                      (create_random_shuffles ends with it), takes its entropy from the run's `rngseam`
                      stream and is logged; every other numpy.random function then runs on the real global
                      RandomState, which is deterministic because its only entropy source is intercepted.
* wall clock        - dsw.operation.datetime is replaced by SimDateTime whose now() reads the simulated clock.
* stdout            - sys.stdout is replaced by a recorder while a library call runs.
* hash seed         - PYTHONHASHSEED is fixed per worker process by the runner (see runner.py).
"""
import datetime as _dt
import io
import os
import sys

import numpy

from sim.kernel import HarnessError

REPO = os.environ.get("DSW_VERIF_REPO", "/repo")
if REPO not in sys.path:
    sys.path.insert(0, REPO)


class RngSeam(object):
    def __init__(self):
        self.real_seed = numpy.random.seed
        self.entropy = None          # random.Random stream of the current run
        self.events = []             # ("seed", value) records of the current op
        self.none_seeds = 0

    def seed(self, seed=None):
        if seed is None:
            if self.entropy is None:
                raise HarnessError("numpy.random.seed(None) outside a simulated run")
            value = self.entropy.getrandbits(32)
            self.none_seeds += 1
            self.events.append(["seed-none", value])
            return self.real_seed(value)
        self.events.append(["seed", seed if isinstance(seed, int) else repr(seed)])
        return self.real_seed(seed)

    def state_digest(self):
        import hashlib
        st = numpy.random.get_state()
        h = hashlib.sha256()
        h.update(st[1].tobytes())
        h.update(repr(st[2:]).encode())
        return h.hexdigest()[:16]


RNG = RngSeam()


class SimClock(object):
    """Simulated wall clock; advances only when read (each now() is one tick of the behaviour)."""

    # realistic misbehaviour of a wall clock: standing still, stepping back (NTP, DST), stepping forward by up to a
    # century (an unset clock at the epoch being corrected); no dates outside 1970-2200
    BEHAVIOURS = ("steady", "frozen", "forward-jumps", "backward-jumps", "epoch-correction", "huge-steps")

    def __init__(self):
        self.reset("steady", None)

    def reset(self, behaviour, rng):
        self.behaviour, self.rng, self.reads = behaviour, rng, 0
        if behaviour == "epoch-correction":
            self.t = _dt.datetime(1970, 1, 1, 0, 0, 0)
            self.correct_at = rng.choice([1, 1, 2, 3, 5, 17]) if rng is not None else 1
        else:
            self.t = _dt.datetime(2026, 1, 1, 0, 0, 0)
        self.first = self.t
        self.lo = self.t
        self.hi = self.t

    def now(self):
        self.reads += 1
        b, r = self.behaviour, self.rng
        if b == "steady" or r is None:
            step = _dt.timedelta(milliseconds=1)
        elif b == "frozen":
            step = _dt.timedelta(0)
        elif b == "forward-jumps":
            step = _dt.timedelta(seconds=r.choice([0, 0.001, 1, 59, 3600, 86400 * 365, 86400 * 36500]))
        elif b == "backward-jumps":
            step = _dt.timedelta(seconds=r.choice([0.001, 1, -1, -3600, -86400 * 30, 7200]))
        elif b == "epoch-correction":
            # the clock was never set (1970) and is corrected to the present at some reading
            step = _dt.timedelta(days=20454, seconds=r.randrange(86400)) if self.reads == self.correct_at \
                else _dt.timedelta(milliseconds=1)
        else:  # huge-steps
            step = _dt.timedelta(days=r.choice([1, 365, 3650, 36500]))
        if self.t + step > _dt.datetime(2200, 1, 1):
            step = _dt.timedelta(milliseconds=1)
        try:
            self.t = self.t + step
        except OverflowError:
            pass  # the simulated clock saturates at the representable range
        self.lo, self.hi = min(self.lo, self.t), max(self.hi, self.t)
        return self.t

    def span_seconds(self):
        return (self.hi - self.lo).total_seconds()


CLOCKSEAM = SimClock()


class SimDateTime(_dt.datetime):
    @classmethod
    def now(cls, tz=None):
        return CLOCKSEAM.now()


def _sim_seconds():
    return (CLOCKSEAM.now() - _dt.datetime(1970, 1, 1)).total_seconds()


class _SimTimeModule(object):
    """Stand-in for the `time` module inside dsw: every clock reads the simulated clock; sleeping costs nothing."""
    time = staticmethod(_sim_seconds)
    monotonic = staticmethod(_sim_seconds)
    perf_counter = staticmethod(_sim_seconds)

    @staticmethod
    def sleep(seconds):
        return None


class _SimDatetimeModule(object):
    """Stand-in for the `datetime` module inside dsw."""
    datetime = SimDateTime
    timedelta = _dt.timedelta
    date = _dt.date
    timezone = _dt.timezone


class StdoutRecorder(io.StringIO):
    pass


class Captured(object):
    """Context manager replacing sys.stdout for the duration of one library call."""

    def __init__(self):
        self.text = ""

    def __enter__(self):
        self._old = sys.stdout
        self._buf = StdoutRecorder()
        sys.stdout = self._buf
        return self

    def __exit__(self, *exc):
        sys.stdout = self._old
        self.text = self._buf.getvalue()
        return False


_INSTALLED = False


def install(stepclock=True):
    """Install all seams; import dsw from the working tree. Idempotent."""
    global _INSTALLED
    import dsw
    import dsw.spiderweb
    import dsw.graphized
    import dsw.operation
    import dsw.biofilter
    if not os.path.realpath(dsw.__file__).startswith(os.path.realpath(REPO) + os.sep):
        raise HarnessError("dsw imported from %s, not from %s" % (dsw.__file__, REPO))
    if _INSTALLED:
        return dsw
    os.environ["DSW_VERIF_SIM"] = "1"
    numpy.random.seed = RNG.seed
    dsw.operation.datetime = SimDateTime
    # every clock any dsw module has imported reads the simulated clock (a deadline added anywhere must not escape it)
    import datetime as _real_dt
    import time as _real_time
    for module in (dsw.spiderweb, dsw.graphized, dsw.operation, dsw.biofilter):
        for name, obj in list(vars(module).items()):
            if obj is _real_dt.datetime:
                setattr(module, name, SimDateTime)
            elif obj is _real_dt:
                setattr(module, name, _SimDatetimeModule)
            elif obj is _real_time:
                setattr(module, name, _SimTimeModule)
            elif any(obj is f for f in (_real_time.time, _real_time.monotonic, _real_time.perf_counter)):
                setattr(module, name, _sim_seconds)      # (identity, not ==: module globals may be numpy arrays)
    if stepclock:
        from sim import stepclock as sc
        sc.install([dsw.spiderweb, dsw.graphized, dsw.operation, dsw.biofilter])
    _INSTALLED = True
    return dsw


def begin_run(rngseam_stream, clock_behaviour="steady", clock_stream=None):
    RNG.entropy = rngseam_stream
    RNG.events = []
    RNG.none_seeds = 0
    RNG.real_seed(rngseam_stream.getrandbits(32))   # every run starts from a seed-derived global RNG state
    CLOCKSEAM.reset(clock_behaviour, clock_stream)


def repo_tree_digest():
    """Digest of the dsw sources the run executes (recorded in traces and evidence)."""
    import hashlib
    h = hashlib.sha256()
    base = os.path.join(REPO, "dsw")
    for name in sorted(os.listdir(base)):
        if name.endswith(".py"):
            with open(os.path.join(base, name), "rb") as f:
                h.update(name.encode())
                h.update(f.read())
    return h.hexdigest()[:16]
