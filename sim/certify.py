"""Simulator-side certificate for C17: structure of the graph and a certified enclosure of its spectral radius.

Independent of the library: SCC decomposition, period, Birkhoff contraction bound on |lambda_2|/lambda_1 from an exact
integer power of the cyclic block, Collatz-Wielandt enclosure of the spectral radius. numpy eigenvalues are never used
to accept a graph.
"""
import math

import numpy


def sccs(rows):
    """Tarjan, iterative. Returns list of components (lists of vertices)."""
    n = len(rows)
    index, low, on, comp = [-1] * n, [0] * n, [False] * n, []
    stack, counter = [], [0]
    for root in range(n):
        if index[root] != -1:
            continue
        work = [(root, 0)]
        while work:
            v, i = work[-1]
            if i == 0:
                index[v] = low[v] = counter[0]
                counter[0] += 1
                stack.append(v)
                on[v] = True
            advanced = False
            succ = [w for w in rows[v] if w >= 0]
            while i < len(succ):
                w = succ[i]
                i += 1
                if index[w] == -1:
                    work[-1] = (v, i)
                    work.append((w, 0))
                    advanced = True
                    break
                elif on[w]:
                    low[v] = min(low[v], index[w])
            if advanced:
                continue
            work.pop()
            if work:
                u = work[-1][0]
                low[u] = min(low[u], low[v])
            if low[v] == index[v]:
                c = []
                while True:
                    w = stack.pop()
                    on[w] = False
                    c.append(w)
                    if w == v:
                        break
                comp.append(sorted(c))
    return comp


def structure(rows):
    """-> dict(cyclic=[components with an internal arc], arcs=int)"""
    comps = sccs(rows)
    cyclic = []
    for c in comps:
        s = set(c)
        if len(c) > 1 or any(w in s for w in rows[c[0]] if w >= 0):
            cyclic.append(c)
    return {"cyclic": cyclic, "arcs": sum(1 for r in rows for w in r if w >= 0)}


def block(rows, comp):
    idx = {v: i for i, v in enumerate(comp)}
    b = numpy.zeros((len(comp), len(comp)), dtype=numpy.int64)
    for v in comp:
        for w in rows[v]:
            if w >= 0 and w in idx:
                b[idx[v], idx[w]] += 1
    return b


def period(b):
    n = len(b)
    level = [-1] * n
    level[0] = 0
    queue, g = [0], 0
    while queue:
        u = queue.pop()
        for v in numpy.nonzero(b[u])[0]:
            if level[v] == -1:
                level[v] = level[u] + 1
                queue.append(int(v))
            g = math.gcd(g, level[u] + 1 - level[v])
    return abs(g)


def birkhoff_ratio(b, max_power=30):
    """Certified upper bound on |lambda_2|/lambda_1 of the primitive 0/1 block b: tau_B(b^m)^(1/m), minimised over the
    powers m <= max_power for which b^m is entrywise positive (the power is exact in int64: entries <= 4^m < 2^63; the
    ratios are then taken in float64, whose rounding cannot move the bound across 0.9). None if no power is positive."""
    n = len(b)
    if n == 1:
        return 0.0
    best, p = None, b.copy()
    for m in range(2, max_power + 1):
        p = p.dot(b)
        if m not in (8, 12, 16, 20, 24, max_power) or not (p > 0).all():
            continue
        f = p.astype(numpy.float64)
        # phi = min over i,j of min_k(f_ik/f_jk) / max_k(f_ik/f_jk)
        phi = 1.0
        for i in range(n):
            ratio = f[i][None, :] / f           # ratio[j, k] = f_ik / f_jk
            q = ratio.min(axis=1) / ratio.max(axis=1)
            phi = min(phi, float(q.min()))
        root = math.sqrt(phi)
        tau = (1.0 - root) / (1.0 + root)
        bound = tau ** (1.0 / m) if tau > 0 else 0.0
        if best is None or bound < best:
            best = bound
        if best <= 0.9 - 1e-6:
            break
    return best


def collatz_wielandt(b, iterations=20000, width=1e-12):
    """Enclosure lo <= rho(b) <= hi for an irreducible non-negative block, from a positive vector."""
    f = b.astype(numpy.float64)
    x = numpy.ones(len(b))
    lo, hi = 0.0, float("inf")
    for _ in range(iterations):
        y = f.dot(x)
        r = y / x
        lo, hi = max(lo, float(r.min())), min(hi, float(r.max()))
        if hi - lo < width * max(1.0, hi):
            break
        # damped iteration keeps x positive also for periodic blocks
        x = y + x
        x = x / x.max()
    slack = 64 * len(b) * 2.3e-16 * max(1.0, hi)
    return max(lo - slack, 0.0), hi + slack


def certify(rows):
    """-> dict describing the graph for C17:
    kind: "arcless" | "acyclic" | "multi-cyclic" | "periodic" | "no-gap" | "certified"
    certified graphs carry log2 bounds lo2 <= log2(rho) <= hi2 and the certified ratio."""
    st = structure(rows)
    if st["arcs"] == 0:
        return {"kind": "arcless"}
    if not st["cyclic"]:
        return {"kind": "acyclic"}
    if len(st["cyclic"]) > 1:
        return {"kind": "multi-cyclic", "components": len(st["cyclic"])}
    comp = st["cyclic"][0]
    b = block(rows, comp)
    if period(b) != 1:
        return {"kind": "periodic", "scc": len(comp)}
    if len(comp) > 1:
        # cheap numeric screen (skip only): hopeless graphs are not worth the exact power
        ev = numpy.sort(numpy.abs(numpy.linalg.eigvals(b.astype(float))))[::-1]
        if len(ev) > 1 and ev[0] > 0 and ev[1] / ev[0] > 0.93:
            return {"kind": "no-gap", "scc": len(comp), "numeric_ratio": float(ev[1] / ev[0])}
    ratio = birkhoff_ratio(b)
    if ratio is None or ratio > 0.9 - 1e-9:
        return {"kind": "no-gap", "scc": len(comp), "ratio": ratio}
    lo, hi = collatz_wielandt(b)
    return {"kind": "certified", "scc": len(comp), "ratio": ratio, "lo2": math.log2(lo), "hi2": math.log2(hi),
            "width": math.log2(hi) - math.log2(lo)}


def regular_degree(rows):
    """d >= 1 if every live vertex (= vertex with an out-arc) has exactly d live successors, else None. Arcs into
    vertices without out-arcs (dangling arcs) do not count: the property speaks of *live* successors."""
    live = set(v for v in range(len(rows)) if any(w >= 0 for w in rows[v]))
    if not live:
        return None
    d = None
    for v in live:
        n = sum(1 for w in rows[v] if w >= 0 and w in live)
        if d is None:
            d = n
        elif d != n:
            return None
    return d if d and d >= 1 else None
