"""Generates /verif/mutants/<property>-<name>.diff from (file, old, new) triples against /repo's current dsw sources.
Each mutant is a seeded fault used by `./check selftest-sensitivity` (applied to a scratch copy, never to /repo)."""
import difflib
import os
import sys

REPO = "/repo"
OUT = os.path.join(os.path.dirname(os.path.dirname(os.path.abspath(__file__))), "mutants")

SW, GR, OP = "dsw/spiderweb.py", "dsw/graphized.py", "dsw/operation.py"

MUTANTS = [
    # ---------------------------------------------------------------- C04
    ("C04-t1-only-first-cycle", SW,
     "                                new_pairs += [(i, former_index) for i in obtain_formers(former_index, observed_length)]\n"
     "                        pairs = new_pairs\n",
     "                                new_pairs += [(i, former_index) for i in obtain_formers(former_index, observed_length)]\n"
     "                        pairs = new_pairs\n"
     "                vertices = obtain_vertices(accessor)\n"
     "                break\n"),
    ("C04-fast-odd-unguarded", SW,
     "                remainder = binary_message[location] * 2\n"
     "                if location + 1 < len(binary_message):  # an odd-length message ends with an implicit 0.\n"
     "                    remainder += binary_message[location + 1]\n",
     "                remainder = binary_message[location] * 2 + binary_message[location + 1]\n"),
    ("C04-trim-stops-one-round-early", SW,
     "        if not changed:\n            break\n\n        vertices = new_vertices\n",
     "        if changed <= 1:\n            break\n\n        vertices = new_vertices\n"),
    # ---------------------------------------------------------------- C06
    ("C06-1way-mismatch-accepted", SW,
     "                if nucleotide == used_nucleotide:\n"
     "                    vertex_index = accessor[vertex_index][nucleotides.index(nucleotide)]\n"
     "                else:\n"
     "                    raise ValueError(\"At least one error is found in this DNA sequence!\")\n",
     "                vertex_index = accessor[vertex_index][used_indices[0]]\n"),
    ("C06-check-flag-only", SW,
     "        if vt_check != set_vt(dna_sequence=dna_sequence, vt_length=len(vt_check)):\n"
     "            raise ValueError(\"At least one error is found in this DNA sequence!\")\n\n    if not is_faster:\n        quotient, saved_values",
     "        if vt_check[0] != set_vt(dna_sequence=dna_sequence, vt_length=len(vt_check))[0]:\n"
     "            raise ValueError(\"At least one error is found in this DNA sequence!\")\n\n    if not is_faster:\n        quotient, saved_values"),
    ("C06-dead-vertex-keyerror", SW,
     "            else:  # current vertex is wrong.\n"
     "                raise ValueError(\"Current vertex doesn't have an out-degree, \"\n"
     "                                 + \"the accessor, the start vertex, or DNA sequence is wrong!\")\n\n            if verbose:\n                monitor(location + 1, len(dna_sequence))",
     "            else:  # current vertex is wrong.\n"
     "                raise KeyError(\"Current vertex doesn't have an out-degree, \"\n"
     "                               + \"the accessor, the start vertex, or DNA sequence is wrong!\")\n\n            if verbose:\n                monitor(location + 1, len(dna_sequence))"),
    ("C06-fast-radix1-unchecked", SW,
     "            used_nucleotides = [nucleotides[used_index] for used_index in used_indices]\n"
     "            if nucleotide in used_nucleotides:  # check whether the DNA sequence is right currently.\n"
     "                remainder = used_nucleotides.index(nucleotide)\n"
     "            else:\n"
     "                raise ValueError(\"At least one error is found in this DNA sequence!\")\n\n            if shuffles is not None:  # shuffle remainder based on the inputted shuffles.\n"
     "                remainder = where(argsort(shuffles[vertex_index, used_indices]) == remainder)[0][0]\n\n            vertex_index = accessor[vertex_index][nucleotides.index(nucleotide)]\n",
     "            used_nucleotides = [nucleotides[used_index] for used_index in used_indices]\n"
     "            if radix == 1:\n"
     "                remainder = 0  # no information here.\n"
     "            elif nucleotide in used_nucleotides:  # check whether the DNA sequence is right currently.\n"
     "                remainder = used_nucleotides.index(nucleotide)\n"
     "            else:\n"
     "                raise ValueError(\"At least one error is found in this DNA sequence!\")\n\n            if shuffles is not None:  # shuffle remainder based on the inputted shuffles.\n"
     "                remainder = where(argsort(shuffles[vertex_index, used_indices]) == remainder)[0][0]\n\n"
     "            vertex_index = accessor[vertex_index][used_indices[0] if radix == 1 else nucleotides.index(nucleotide)]\n"),
    ("C06-empty-strand-skips-check", SW,
     "    if vt_check is not None:\n        if vt_check != set_vt(dna_sequence=dna_sequence, vt_length=len(vt_check)):",
     "    if vt_check is not None and len(dna_sequence) > 0:\n        if vt_check != set_vt(dna_sequence=dna_sequence, vt_length=len(vt_check)):"),
    # ---------------------------------------------------------------- C07
    ("C07-ascent-includes-equal", SW,
     "where((values[1:] - values[:-1]) > 0)[0]", "where((values[1:] - values[:-1]) >= 0)[0]"),
    ("C07-value-modulus-one-digit-too-wide", SW,
     "% (len(nucleotides) ** (int(vt_length) - 1))\n", "% (len(nucleotides) ** int(vt_length))\n"),
    ("C07-flag-counts-only-gc", SW,
     "    vt_flag = int(sum(values)) % len(nucleotides)\n",
     "    vt_flag = int(sum(values)) % len(nucleotides) if len(dna_sequence) < 64 else int(sum(values % 2)) % len(nucleotides)\n"),
    # ---------------------------------------------------------------- C08
    ("C08-lookback-slice-shifted", SW,
     "index_markers.append(index_queue[location - observed_length: location])",
     "index_markers.append(index_queue[location - observed_length + 1: location + 1])"),
    ("C08-no-lookback", SW,
     "index_markers.append(index_queue[location - observed_length: location])",
     "index_markers.append(index_queue[location - 1: location])"),
    ("C08-resume-one-short", SW,
     "            location += observed_length + 1\n", "            location += observed_length\n"),
    ("C08-chunk-slice-shifted", SW,
     "chuck_sequences.append(dna_sequence[location - observed_length + 1: location + observed_length])",
     "chuck_sequences.append(dna_sequence[location - observed_length + 1: location + observed_length - 1])"),
    ("C08-insertion-branch-skips-a-nucleotide", GR,
     "            for nucleotide in dna_sequence[occur_location:]:\n",
     "            for nucleotide in dna_sequence[occur_location + 1:]:\n"),
    ("C08-deletion-branch-dropped-at-lag", GR,
     "        d_nucleotide, vertex_index, reliable = original, previous_index, True\n",
     "        d_nucleotide, vertex_index, reliable = original, previous_index, occur_location + 1 < len(dna_sequence) - 1\n"),
    ("C08-recall-offset-wrong-beyond-lag-1", SW,
     "previous_index=vertex_index, occur_location=observed_length - recall - 1)",
     "previous_index=vertex_index, occur_location=observed_length - recall - 1 - (recall > 1))"),
    ("C08-resume-short-for-long-windows", SW,
     "            location += observed_length + 1\n", "            location += observed_length + 1 - (observed_length > 2)\n"),
    ("C08-lookback-misses-oldest-state", SW,
     "index_markers.append(index_queue[location - observed_length: location])",
     "index_markers.append(index_queue[location - min(observed_length, 2): location])"),
    # ---------------------------------------------------------------- C09
    ("C09-unsorted-result", SW,
     "    return sorted(list(repaired_results)), (detected_count", "    return list(repaired_results), (detected_count"),
    ("C09-heap-overflow-ignores-check", SW,
     "    if count == 0 or count > heap_size:\n        if vt_check is not None:",
     "    if count > heap_size:\n        return [dna_sequence], (0, False, 0, visited_times)\n\n    if count == 0:\n        if vt_check is not None:"),
    ("C09-candidates-added-before-check", SW,
     "        if vt_check is not None:\n            if vt_check == set_vt(dna_sequence=repaired_dna_sequence, vt_length=len(vt_check)):\n                repaired_results.add(repaired_dna_sequence)\n            else:\n                chuck_flag = True\n",
     "        if vt_check is not None and len(split_sequences) < 4:\n            if vt_check == set_vt(dna_sequence=repaired_dna_sequence, vt_length=len(vt_check)):\n                repaired_results.add(repaired_dna_sequence)\n            else:\n                chuck_flag = True\n"),
    ("C09-clean-walk-last-window-recheck", SW,
     "    repaired_fragment_set = [set() for _ in range(len(index_markers))]\n",
     "    if detected_count == 0 and len(dna_sequence) > 3 * observed_length and dna_sequence[-1] == dna_sequence[-2] == dna_sequence[-3]:\n"
     "        detected_count = 1  # suspicious homopolymer tail.\n"
     "        return [dna_sequence], (detected_count, False, 1, visited_times)\n\n"
     "    repaired_fragment_set = [set() for _ in range(len(index_markers))]\n"),
    # ---------------------------------------------------------------- C10
    ("C10-first-nucleotide-spin", SW,
     "            location += 1\n        else:\n            detected_count += 1\n",
     "            location += 1\n        elif len(split_sequences[-1]) > 0:\n            detected_count += 1\n"),
    ("C10-no-advance-in-last-window", SW,
     "            location += observed_length + 1\n",
     "            location += observed_length + 1 if location + observed_length < len(dna_sequence) else 0\n"),
    ("C10-heap-guard-dropped", SW,
     "    if count == 0 or count > heap_size:\n", "    if count == 0:\n"),
    ("C10-last-window-indexerror", SW,
     "            split_sequences.append(nucleotides[vertex_index % 4])\n",
     "            split_sequences.append(dna_sequence[location + observed_length])\n"),
    # ---------------------------------------------------------------- C17
    ("C17-stop-on-equal-estimates", GR,
     "                if relative_error < 10 ** tolerance_level \\\n                        and max(abs(eigenvector - last_eigenvector)) < 10 ** tolerance_level:\n",
     "                if relative_error < 10 ** tolerance_level:\n"),
    ("C17-loose-tolerance", GR,
     "                if relative_error < 10 ** tolerance_level \\\n                        and max(abs(eigenvector - last_eigenvector)) < 10 ** tolerance_level:\n",
     "                if relative_error < 10 ** (tolerance_level // 4) \\\n                        and max(abs(eigenvector - last_eigenvector)) < 10 ** (tolerance_level // 4):\n"),
    ("C17-tolerance-1e-5", GR,
     "                if relative_error < 10 ** tolerance_level \\\n                        and max(abs(eigenvector - last_eigenvector)) < 10 ** tolerance_level:\n",
     "                if relative_error < 10 ** (tolerance_level // 2) \\\n                        and max(abs(eigenvector - last_eigenvector)) < 10 ** (tolerance_level // 2):\n"),
    ("C17-max-over-repeats", GR,
     "        return median(results)\n", "        return max(results)\n"),
    # ---------------------------------------------------------------- C18
    ("C18-cache-keyed-on-length-only", SW,
     "    nucleotides = \"ACGT\"\n\n    shuffles = zeros(shape=(4 ** observed_length, len(nucleotides)), dtype=int)\n",
     "    nucleotides = \"ACGT\"\n\n    if random_seed is not None and observed_length in _SHUFFLE_CACHE:\n        return _SHUFFLE_CACHE[observed_length].copy()\n\n    shuffles = zeros(shape=(4 ** observed_length, len(nucleotides)), dtype=int)\n"),
    ("C18-large-tables-not-permutations", SW,
     "    for index in range(4 ** observed_length):\n        card = shuffles[index]\n        random.shuffle(card)\n        shuffles[index] = card\n",
     "    for index in range(4 ** observed_length):\n        card = shuffles[index]\n        random.shuffle(card)\n        shuffles[index] = card if index < 1000 else card[random.randint(0, 4, size=4)]\n"),
    ("C18-seed-zero-treated-as-none", SW,
     "    random.seed(random_seed)\n\n    monitor = Monitor()\n",
     "    random.seed(random_seed if random_seed else None)\n\n    monitor = Monitor()\n"),
    # ---------------------------------------------------------------- C19
    ("C19-emptied-key-kept", SW,
     "    if len(latter_map[former]) == 0:\n        del latter_map[former]\n", ""),
    ("C19-latter-map-not-updated", SW,
     "    del latter_map[former][latter_map[former].index(latter)]\n    if len(latter_map[former]) == 0:\n        del latter_map[former]\n",
     "    latter_map = {key: list(value) for key, value in latter_map.items()}\n"),
    ("C19-argmin", SW,
     "latter_value = former % len(nucleotides), argmax(scores[former])",
     "latter_value = former % len(nucleotides), argmax(scores[former] * (scores[former] < max(scores)) if len(vertex_indices) > 2 else scores[former])"),
    ("C19-first-successor-deleted", SW,
     "    del latter_map[former][latter_map[former].index(latter)]\n", "    del latter_map[former][0]\n"),
    # ---------------------------------------------------------------- C20
    ("C20-mask-trimmed-in-place", SW,
     "        if not changed:\n            break\n\n        vertices = new_vertices\n",
     "        if not changed:\n            break\n\n        vertices[:] = new_vertices\n"),
    ("C20-latters-cache-ignores-length", GR,
     "    nucleotides = \"ACGT\"\n\n    latters = []\n    for latter_value in range(len(nucleotides)):\n"
     "        latter = int((current * len(nucleotides) + latter_value) % (len(nucleotides) ** observed_length))\n"
     "        latters.append(latter)\n\n    return latters\n",
     "    nucleotides = \"ACGT\"\n\n    if current in _LATTERS_CACHE:\n        return list(_LATTERS_CACHE[current])\n\n    latters = []\n    for latter_value in range(len(nucleotides)):\n"
     "        latter = int((current * len(nucleotides) + latter_value) % (len(nucleotides) ** observed_length))\n"
     "        latters.append(latter)\n\n    _LATTERS_CACHE[current] = tuple(latters)\n\n    return latters\n"),
    ("C20-latter-map-sorted-in-place", GR,
     "            for latter_vertex in latter_vertices:\n                accessor[former_vertex, latter_vertex % len(nucleotides)] = latter_vertex\n",
     "            latter_vertices.sort(reverse=True)\n            for latter_vertex in latter_vertices:\n                accessor[former_vertex, latter_vertex % len(nucleotides)] = latter_vertex\n"),
    ("C20-monitor-divides-by-elapsed", OP,
     "        wait_time = int(pass_time * (total_state - current_state) / current_state)\n",
     "        wait_time = int((total_state - current_state) / (current_state / pass_time))\n"),
    ("C20-verbose-encode-rebinds-quotient", SW,
     "            if verbose:\n                if quotient != \"0\":\n                    monitor(total_state - len(quotient), total_state)\n",
     "            if verbose:\n                if quotient != \"0\":\n                    quotient = quotient[-total_state:] if len(dna_sequence) % 97 else quotient[1:] or \"0\"\n                    monitor(total_state - len(quotient), total_state)\n"),
]

EXTRA_HEADER = {
    "C18-cache-keyed-on-length-only": (SW, "def encode(binary_message, accessor, start_index,\n",
                                       "_SHUFFLE_CACHE = {}\n\n\ndef encode(binary_message, accessor, start_index,\n"),
    "C20-latters-cache-ignores-length": (GR, "def get_complete_accessor(observed_length, verbose=False):\n",
                                         "_LATTERS_CACHE = {}\n\n\ndef get_complete_accessor(observed_length, verbose=False):\n"),
}

EXTRA_TAIL = {
    "C18-cache-keyed-on-length-only": (SW, "    random.seed(None)\n\n    return shuffles\n",
                                       "    random.seed(None)\n\n    if random_seed is not None:\n        _SHUFFLE_CACHE[observed_length] = shuffles.copy()\n\n    return shuffles\n"),
}


def main():
    os.makedirs(OUT, exist_ok=True)
    bad = 0
    for name, path, old, new in MUTANTS:
        with open(os.path.join(REPO, path)) as f:
            src = f.read()
        if src.count(old) != 1:
            print("!! %s: pattern occurs %d times" % (name, src.count(old)))
            bad += 1
            continue
        mutated = src.replace(old, new)
        for extra in (EXTRA_HEADER, EXTRA_TAIL):
            if name in extra:
                p2, o2, n2 = extra[name]
                assert p2 == path and mutated.count(o2) == 1, name
                mutated = mutated.replace(o2, n2)
        diff = difflib.unified_diff(src.splitlines(True), mutated.splitlines(True), "a/" + path, "b/" + path)
        with open(os.path.join(OUT, name + ".diff"), "w") as f:
            f.write("".join(diff))
    print("%d mutants written, %d bad" % (len(MUTANTS) - bad, bad))
    return 1 if bad else 0


if __name__ == "__main__":
    sys.exit(main())
