"""Replaces the seeded-change table in DESIGN.md (between the SENS-TABLE markers) with the current sensitivity results."""
import os, subprocess
V = os.path.dirname(os.path.dirname(os.path.abspath(__file__)))
table = subprocess.check_output(["/venv/bin/python", os.path.join(V, "tools", "sens_table.py")]).decode()
p = os.path.join(V, "DESIGN.md")
s = open(p).read()
a = s.index("<!-- SENS-TABLE-BEGIN -->") + len("<!-- SENS-TABLE-BEGIN -->\n")
b = s.index("<!-- SENS-TABLE-END -->")
open(p, "w").write(s[:a] + table + s[b:])
print("table rows:", table.count("\n") - 2)
