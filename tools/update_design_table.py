"""Replaces the seeded-change table in DESIGN.md (between the SENS-TABLE markers) with the current sensitivity results."""
import os, subprocess
V = os.path.dirname(os.path.dirname(os.path.abspath(__file__)))
table = subprocess.check_output(["/venv/bin/python", os.path.join(V, "tools", "sens_table.py")]).decode()
p = os.path.join(V, "DESIGN.md")
s = open(p).read()
a = s.index("<!-- SENS-TABLE-BEGIN -->") + len("<!-- SENS-TABLE-BEGIN -->\n")
b = s.index("<!-- SENS-TABLE-END -->")
open(p, "w").write(s[:a] + table + s[b:])
print("table rows:", table.count("\n") - 2)

import json
d = json.load(open(os.path.join(V, "evidence", "selftest-sensitivity.json")))
res = d["results"]
quick = [r for r in res if r["caught"] and r.get("tier") != "thorough"]
thorough = [r for r in res if r["caught"] and r.get("tier") == "thorough"]
equiv = [r for r in res if not r["caught"] and r.get("equivalent")]
missed = [r for r in res if not r["caught"] and not r.get("equivalent")]
own = [r for r in res if not r["mutant"].startswith("seeded/")]
seeded = [r for r in res if r["mutant"].startswith("seeded/")]
text = ("Of the %d seeded changes (%d mine, %d from sub-agents), %d are reported by the *quick* tier of their property and "
        "%d more by its thorough tier (%s), each with a minimised replay file that reproduces in a fresh process; %d are "
        "listed in `mutants/EQUIVALENT.json` as not violating the property as worded (reasons in the table); %d are missed%s.\n"
        % (len(res), len(own), len(seeded), len(quick), len(thorough),
           ", ".join("`%s`" % r["mutant"] for r in thorough) or "none", len(equiv), len(missed),
           (": " + ", ".join("`%s`" % r["mutant"] for r in missed)) if missed else ""))
s = open(p).read()
a = s.index("<!-- SENS-SUMMARY-BEGIN -->") + len("<!-- SENS-SUMMARY-BEGIN -->\n")
b = s.index("<!-- SENS-SUMMARY-END -->")
open(p, "w").write(s[:a] + text + s[b:])
print(text)
