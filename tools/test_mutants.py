"""For each mutant diff: scratch copy of /repo (dsw + tests) outside /repo and /verif, apply, run the pinned suite.
Writes mutants/STATUS.json: {name: "tests-pass" | "tests-fail: ..."}. Scratch copies are removed."""
import json, os, shutil, subprocess, sys, tempfile
from concurrent.futures import ThreadPoolExecutor
V = os.path.dirname(os.path.dirname(os.path.abspath(__file__)))
sys.path.insert(0, V)
from sim import selftest

def one(item):
    name, prop, patch = item[:3]
    tmp = tempfile.mkdtemp(prefix="dswmut-")
    try:
        for d in ("dsw", "tests"):
            shutil.copytree(os.path.join("/repo", d), os.path.join(tmp, d))
        p = subprocess.run(["patch", "-p1", "-d", tmp, "-i", patch], stdout=subprocess.PIPE, stderr=subprocess.PIPE)
        if p.returncode != 0:
            return name, "patch-failed"
        q = subprocess.run(["timeout", "1200", "/venv/bin/python", "-m", "pytest", "-q", "-x", "-p", "no:cacheprovider",
                            "--timeout=900"], cwd=tmp, stdout=subprocess.PIPE, stderr=subprocess.STDOUT)
        tail = q.stdout.decode()[-300:].strip().splitlines()[-1] if q.stdout else ""
        return name, "tests-pass" if q.returncode == 0 else "tests-fail: " + tail
    finally:
        shutil.rmtree(tmp, ignore_errors=True)

only = sys.argv[1:]
items = [m for m in selftest.collect_mutants() if not only or any(o in m[0] for o in only)]
path = os.path.join(V, "mutants", "STATUS.json")
status = json.load(open(path)) if os.path.exists(path) else {}
with ThreadPoolExecutor(max_workers=6) as pool:
    for name, res in pool.map(one, items):
        status[name] = res
        print(name, res, flush=True)
json.dump(status, open(path, "w"), indent=1, sort_keys=True)
