"""Re-confirm kept seeded changes against the current /repo HEAD (after a fix: commit changed their context):
scratch worktree, apply patch.diff, 30 tests must pass, demo.py must fail; clean tree: demo.py must pass."""
import json, os, subprocess, sys
from concurrent.futures import ThreadPoolExecutor
V = os.path.dirname(os.path.dirname(os.path.abspath(__file__)))
PY = "/venv/bin/python"

def sh(cmd, cwd=None, timeout=1800):
    p = subprocess.run(cmd, cwd=cwd, stdout=subprocess.PIPE, stderr=subprocess.STDOUT, timeout=timeout)
    return p.returncode, p.stdout.decode("utf-8", "replace")

def one(name):
    d = os.path.join(V, "seeded", name)
    wt = "/tmp/rc-" + name
    sh(["git", "-C", "/repo", "worktree", "remove", "--force", wt])
    sh(["git", "-C", "/repo", "worktree", "add", "-q", "--detach", wt, "HEAD"])
    try:
        rc, out = sh(["git", "apply", os.path.join(d, "patch.diff")], cwd=wt)
        if rc != 0:
            return name, False, "patch does not apply"
        rc_t, out_t = sh([PY, "-m", "pytest", "-q", "-p", "no:cacheprovider", "--timeout=900"], cwd=wt)
        rc_d, _ = sh(["timeout", "600", PY, os.path.join(d, "demo.py")], cwd=wt)
        sh(["git", "checkout", "--", "."], cwd=wt)
        rc_c, _ = sh(["timeout", "600", PY, os.path.join(d, "demo.py")], cwd=wt)
        ok = rc_t == 0 and rc_d != 0 and rc_c == 0
        meta_path = os.path.join(d, "meta.json")
        meta = json.load(open(meta_path))
        head = subprocess.check_output(["git", "-C", "/repo", "rev-parse", "--short", "HEAD"]).decode().strip()
        meta.setdefault("reconfirmed", []).append({"base_commit": head, "tests_rc": rc_t, "demo_with_patch_rc": rc_d,
                                                   "demo_clean_rc": rc_c, "ok": ok})
        json.dump(meta, open(meta_path, "w"), indent=1)
        return name, ok, "tests=%d demo+patch=%d demo clean=%d" % (rc_t, rc_d, rc_c)
    finally:
        sh(["git", "-C", "/repo", "worktree", "remove", "--force", wt])

names = sys.argv[1:] or sorted(os.listdir(os.path.join(V, "seeded")))
with ThreadPoolExecutor(max_workers=4) as pool:
    for name, ok, msg in pool.map(one, names):
        print(name, "CONFIRMED" if ok else "FAILED", msg, flush=True)
