"""Import round-3 sub-agent changes: the property is named on the first line of notes-<i>.txt (PROPERTY: Cxx)."""
import os, re, subprocess, sys, shutil
V = os.path.dirname(os.path.dirname(os.path.abspath(__file__)))
jobs = []
for g in sys.argv[1:]:
    for letter in "abc":
        notes = "/tmp/o3-%s/notes-%s.txt" % (g, letter)
        if not os.path.exists(notes):
            continue
        m = re.search(r"PROPERTY:\s*(C\d\d)", open(notes).read())
        if not m:
            print("no property in", notes); continue
        prop = m.group(1)
        # stage under a per-job source dir so that import_seeded can be reused
        stage = "/tmp/o3stage-%s%s-%s" % (g, letter, prop)
        os.makedirs(stage + prop, exist_ok=True)   # import_seeded appends the property to SEEDED_SRC
        for a, b in (("mutant", "diff"), ("demo", "py"), ("notes", "txt")):
            shutil.copy("/tmp/o3-%s/%s-%s.%s" % (g, a, letter, b), "%s%s/%s-%s.%s" % (stage, prop, a, letter, b))
        jobs.append((stage, prop, letter, g))
for stage, prop, letter, g in jobs:
    env = dict(os.environ, SEEDED_SRC=stage, SEEDED_TAG="r3g%s" % g)
    subprocess.run(["/venv/bin/python", os.path.join(V, "tools", "import_seeded.py"), prop, letter], env=env)
    shutil.rmtree(stage + prop, ignore_errors=True)
