"""Import sub-agent changes whose property is named on the first line of notes-<i>.txt (PROPERTY: Cxx).
usage: import_round3.py <tag, e.g. r3 or r4> <dir prefix, e.g. /tmp/o3-> <group> [<group> ...]"""
import os, re, subprocess, sys, shutil
V = os.path.dirname(os.path.dirname(os.path.abspath(__file__)))
tag, prefix, groups = sys.argv[1], sys.argv[2], sys.argv[3:]
jobs = []
for g in groups:
    for letter in "abc":
        src = "%s%s" % (prefix, g)
        notes = "%s/notes-%s.txt" % (src, letter)
        if not os.path.exists(notes):
            continue
        m = re.search(r"PROPERTY:\s*(C\d\d)", open(notes).read())
        if not m:
            print("no property in", notes)
            continue
        prop = m.group(1)
        stage = "/tmp/ostage-%s%s-" % (g, letter)      # import_seeded appends the property to SEEDED_SRC
        os.makedirs(stage + prop, exist_ok=True)
        for a, b in (("mutant", "diff"), ("demo", "py"), ("notes", "txt")):
            shutil.copy("%s/%s-%s.%s" % (src, a, letter, b), "%s%s/%s-%s.%s" % (stage, prop, a, letter, b))
        jobs.append((stage, prop, letter, g))
for stage, prop, letter, g in jobs:
    env = dict(os.environ, SEEDED_SRC=stage, SEEDED_TAG="%sg%s" % (tag, g))
    subprocess.run(["/venv/bin/python", os.path.join(V, "tools", "import_seeded.py"), prop, letter], env=env)
    shutil.rmtree(stage + prop, ignore_errors=True)
