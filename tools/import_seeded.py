"""Confirm a sub-agent's change myself in a scratch worktree of /repo and keep it as /verif/seeded/<id>/.
usage: import_seeded.py <PROP> <letter> [...]  (reads /tmp/out-<PROP>/mutant-<letter>.diff, demo-<letter>.py, notes-<letter>.txt)"""
import json, os, shutil, subprocess, sys
from concurrent.futures import ThreadPoolExecutor
V = os.path.dirname(os.path.dirname(os.path.abspath(__file__)))
PY = "/venv/bin/python"

def sh(cmd, cwd=None, timeout=1500):
    p = subprocess.run(cmd, cwd=cwd, stdout=subprocess.PIPE, stderr=subprocess.STDOUT, timeout=timeout)
    return p.returncode, p.stdout.decode("utf-8", "replace")

def one(item):
    prop, letter = item
    src = os.environ.get("SEEDED_SRC", "/tmp/out-") + prop
    patch, demo, notes = ("%s/%s-%s.%s" % (src, a, letter, b) for a, b in (("mutant", "diff"), ("demo", "py"), ("notes", "txt")))
    wt = "/tmp/vs-%s-%s" % (prop, letter)
    ran = []
    sh(["git", "-C", "/repo", "worktree", "remove", "--force", wt])
    rc, out = sh(["git", "-C", "/repo", "worktree", "add", "-q", "--detach", wt, "HEAD"])
    try:
        rc, out = sh(["git", "apply", patch], cwd=wt)
        ran.append({"cmd": "git apply patch.diff", "rc": rc})
        if rc != 0:
            return prop, letter, False, "patch does not apply: " + out[-200:], ran
        rc_t, out_t = sh([PY, "-m", "pytest", "-q", "-p", "no:cacheprovider", "--timeout=900"], cwd=wt)
        ran.append({"cmd": "pytest (mutant applied)", "rc": rc_t, "tail": out_t.strip().splitlines()[-1] if out_t.strip() else ""})
        rc_d, out_d = sh(["timeout", "600", PY, demo], cwd=wt)
        ran.append({"cmd": "demo.py (mutant applied)", "rc": rc_d, "tail": out_d.strip().splitlines()[-1][:200] if out_d.strip() else ""})
        sh(["git", "checkout", "--", "."], cwd=wt)
        rc_c, out_c = sh(["timeout", "600", PY, demo], cwd=wt)
        ran.append({"cmd": "demo.py (clean tree)", "rc": rc_c})
        ok = rc_t == 0 and rc_d != 0 and rc_c == 0
        if ok:
            dst = os.path.join(V, "seeded", "%s-%s%s" % (prop, os.environ.get("SEEDED_TAG", ""), letter))
            os.makedirs(dst, exist_ok=True)
            shutil.copy(patch, os.path.join(dst, "patch.diff"))
            shutil.copy(demo, os.path.join(dst, "demo.py"))
            text = open(notes).read() if os.path.exists(notes) else ""
            with open(os.path.join(dst, "notes.txt"), "w") as f:
                f.write(text)
            meta = {"property": prop, "origin": "independent sub-agent given only the property text and a scratch worktree",
                    "needs_to_manifest": text.strip()[:1500], "confirmed_by_me": ran,
                    "base_commit": subprocess.check_output(["git", "-C", "/repo", "rev-parse", "--short", "HEAD"]).decode().strip()}
            with open(os.path.join(dst, "meta.json"), "w") as f:
                json.dump(meta, f, indent=1)
        return prop, letter, ok, "", ran
    finally:
        sh(["git", "-C", "/repo", "worktree", "remove", "--force", wt])

items = []
args = sys.argv[1:]
for i in range(0, len(args), 2):
    items.append((args[i], args[i + 1]))
with ThreadPoolExecutor(max_workers=5) as pool:
    for prop, letter, ok, msg, ran in pool.map(one, items):
        print(prop, letter, "CONFIRMED" if ok else "REJECTED " + msg, [(r["cmd"], r["rc"]) for r in ran], flush=True)
