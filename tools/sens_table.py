"""Prints the markdown table of seeded changes and the check that catches each (from evidence/selftest-sensitivity.json)."""
import json, os, re
V = os.path.dirname(os.path.dirname(os.path.abspath(__file__)))
d = json.load(open(os.path.join(V, "evidence", "selftest-sensitivity.json")))
status = {}
p = os.path.join(V, "mutants", "STATUS.json")
if os.path.exists(p):
    status = json.load(open(p))
print("| seeded change | property | existing tests | quick check verdict | first violation reported (after shrinking) |")
print("|---|---|---|---|---|")
for r in d["results"]:
    first = r.get("first") or ""
    m = re.match(r"violation (\S+) in (\d+) run\(s\); minimised to (\d+) op\(s\) from (\d+): (.*)", first)
    if m:
        desc = "%s, %s runs, %s op(s) after shrinking: %s" % (m.group(1), m.group(2), m.group(3), m.group(5)[:110].replace("|", "/"))
    else:
        desc = first[:120]
    name = r["mutant"]
    tests = "pass (confirmed)" if name.startswith("seeded/") else status.get(name, "?").replace("tests-", "")[:28]
    verdict = "**caught**" + (" (thorough)" if r.get("tier") == "thorough" else "") if r["caught"] else \
        ("not caught: not a violation as worded" if r.get("equivalent") else "MISSED")
    if not r["caught"] and r.get("equivalent"):
        desc = r["equivalent"][:160]
    print("| `%s` | %s | %s | %s | %s |" % (name, r["property"], tests, verdict, desc))
