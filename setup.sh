#!/bin/sh
# Offline setup: nothing is built; verify the interpreter and the libraries the simulator needs.
set -e
PY=/venv/bin/python
$PY - <<'PY'
import sys
assert sys.version_info[:2] >= (3, 12), "sys.monitoring (CPython >= 3.12) is required"
import numpy, networkx  # noqa
try:
    import hypothesis  # noqa
except ImportError:
    import subprocess
    subprocess.check_call([sys.executable, "-m", "pip", "install", "--no-index", "--find-links",
                           "/opt/veriftools/wheels", "hypothesis"])
print("setup ok: python", sys.version.split()[0], "numpy", numpy.__version__, "networkx", networkx.__version__)
PY
mkdir -p evidence replays
